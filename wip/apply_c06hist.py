p='/verif/harness/xfer/c04_c05_test.go'
s=open(p).read()
# 1. tamper fields
s=s.replace('''	Site       string // "" = kill at the At-th fraction of all hook hits; else of the hits of this site
}''','''	Site       string // "" = kill at the At-th fraction of all hook hits; else of the hits of this site
	Tamper     string  // C06 histories: what happens to a partially received data file before this run ("" = nothing)
	TamperFile int
	TamperFrac float64
}''')
s=s.replace('''type crashCase struct {
	X          xcase
	Chain      []interruption
	Delay      int
	FinalDelta int
}''','''type crashCase struct {
	X          xcase
	Chain      []interruption
	Delay      int
	FinalDelta int
	FinalTamper, FinalTamperFile int
}

// tamperData deletes or shortens the data file of a file that already has marked chunks
// (what a user or a clean-up job may do between two attempts). Returns a description.
func tamperData(e *crashEnv, kind string, file int, fr float64) string {
	if kind == "" {
		return ""
	}
	var cands []diskSidecar
	for _, sc := range scanSidecars(e.out, e.p.m) {
		if sc.Loadable && sc.Item != nil {
			if _, ok := sc.SC.HighestComplete(); ok {
				cands = append(cands, sc)
			}
		}
	}
	if len(cands) == 0 {
		return ""
	}
	sc := cands[file%len(cands)]
	fp := filepath.Join(e.baseDir(), filepath.FromSlash(sc.Item.RelPath))
	switch kind {
	case "data-deleted":
		if os.Remove(fp) != nil {
			return ""
		}
	case "data-shortened":
		n := int64(fr * float64(sc.Item.Size))
		if n >= sc.Item.Size {
			n = sc.Item.Size - 1
		}
		if n < 0 || os.Truncate(fp, n) != nil {
			return ""
		}
	default:
		return ""
	}
	hi, _ := sc.SC.HighestComplete()
	return fmt.Sprintf("%s of %s (highest marked chunk %d)", kind, sc.Item.RelPath, hi)
}''')
open(p,'w').write(s)

s=open(p).read()
old="""		before := scanSidecars(e.out, e.p.m)
		loadable := loadableSet(e, sp.Chunk)
		oc, rerr := e.run(sp)"""
new="""		if which == "C06" && i > 0 {
			if d := tamperData(e, in.Tamper, in.TamperFile, in.TamperFrac); d != "" {
				st.sites["tamper:"+in.Tamper]++
				st.tampers = append(st.tampers, fmt.Sprintf("before run %d: %s", i+1, d))
			}
		}
		before := scanSidecars(e.out, e.p.m)
		loadable := loadableSet(e, sp.Chunk)
		oc, rerr := e.run(sp)"""
assert s.count(old)==1
s=s.replace(old,new)
old="""	// final uninterrupted resumed run
	before := scanSidecars(e.out, e.p.m)"""
new="""	// final uninterrupted resumed run
	if which == "C06" {
		if d := tamperData(e, []string{"", "data-deleted", "data-shortened"}[cc.FinalTamper%3], cc.FinalTamperFile, 0.5); d != "" {
			st.tampers = append(st.tampers, "before the final run: "+d)
		}
	}
	before := scanSidecars(e.out, e.p.m)"""
assert s.count(old)==1
s=s.replace(old,new)
old="""	if s, d := c04CheckAdvertised(e, before, r, 0, fin.Chunk); s != "" {
		return s, "final resumed run: " + d, st, nil
	}"""
new="""	if which == "C04" {
		if s, d := c04CheckAdvertised(e, before, r, 0, fin.Chunk); s != "" {
			return s, "final resumed run: " + d, st, nil
		}
	}"""
assert s.count(old)==1
s=s.replace(old,new)
old="""	if r.SendErr != "" || r.RecvErr != "" {
		return "final-resume-failed:""""
s=s.replace("""	if r.SendErr != "" || r.RecvErr != "" {
		return "final-resume-failed:" + errClass""","""	if which == "C06" && (r.SendErr != "" || r.RecvErr != "") {
		return "", "", st, nil // fails loudly: allowed for tampered state
	}
	if r.SendErr != "" || r.RecvErr != "" {
		return "final-resume-failed:" + errClass""")
s=s.replace("""	sites                                                       map[string]int
}""","""	sites                                                       map[string]int
	tampers                                                     []string
}""")
s=s.replace("""	if diff := e.p.checkTree(); diff != "" {
		return "final-tree-differs", "the final resumed run succeeded but " + diff, st, nil
	}
	return "", "", st, nil
}""","""	if diff := e.p.checkTree(); diff != "" {
		if which == "C06" {
			return "resume-skipped-data:interrupted-after-tamper", fmt.Sprintf("the final resumed run succeeded but %s | tampering: %v", diff, st.tampers), st, nil
		}
		return "final-tree-differs", "the final resumed run succeeded but " + diff, st, nil
	}
	return "", "", st, nil
}""")
open(p,'w').write(s)
