# Configuration of the checks: which harness directory is overlaid onto which repository
# package, and per property which test binaries / test functions run in which tier.

# /verif/harness/<name>/X.go  ->  /repo/<target>/zz_verif_X.go (build overlay, /repo untouched)
HARNESS_TARGETS = {
    "kit": "internal/verifkit",          # shared library (no repo imports)
    "net": "internal/verifnet",          # runner, tree generator, wire decoder (imports transfer)
    "transfer": "internal/transfer",     # white-box tests, package transfer
    "xfer": "internal/verifxfer",        # black-box transfer tests (package verifxfer)
    "peers": "internal/peers",
    "app": "internal/app",
    "ice": "internal/ice",
    "session": "internal/session",
    "manifest": "pkg/manifest",
    "protocol": "pkg/protocol",
    "clienthttp": "internal/clienthttp",
    "scheduler": "internal/scheduler",
    "thruservmain": "cmd/thruserv",      # white-box tests of the server's connection handler (package main)
    "srv": "internal/verifsrv",          # drives the real thruserv binary
    "e2e": "internal/verife2e",          # drives the real thru binaries
}

BINARIES = {
    "thruserv": "./cmd/thruserv",
    "thru": "./cmd/thru",
}

T = "./internal/transfer"

HOOK_COMMITS = ["f6caa67", "c0d7bd4"]
X = "./internal/verifxfer"

# properties whose check is not registered (yet); reason shown under not_applicable
PENDING = {}

CHECKS = {
    "C19": {
        "level": "exploration",
        "level_text": ("Generated-input search with a math/big reference: the small domain size 0..400 x chunk 1..48 is enumerated "
                       "completely, the rest (boundary lattice up to 10 TiB / 2^32-1, random pairs constructed to fit the 32-bit "
                       "chunk-count field) is sampled; the receiver's inline arithmetic is observed behaviourally with a scripted "
                       "sender on real and sparse files. Exploration is the right level: the domain is 2^75 pairs, arithmetic bugs "
                       "live on a lattice that the generator is built to hit."),
        "level_note": "Trusted: math/big reference arithmetic, the harness's scripted sender, sparse-file support of the work filesystem; sizes are sampled, not proven.",
        "technique": "property-based testing (rapid) + bounded-exhaustive enumeration against a math/big reference; behavioural receiver probes over in-memory transport",
        "rule": ("(size, chunk) pairs: exhaustive block size 0..400 x chunk 1..48 (thorough 0..2000 x 1..128), a boundary lattice "
                 "(k*c-1, k*c, k*c+1 for c up to 2^32-1, sizes around 2^31, 2^32, 10 TiB) and rapid draws constructed so the chunk "
                 "count fits 32 bits; behavioural receiver probes (chunk n-1 accepted at (n-1)*c, chunk n rejected, metadata count) "
                 "on real and sparse files. Non-trivial = size not a multiple of the chunk size or size/chunk at a power-of-two edge; "
                 "distinct = distinct (size, chunk[, resume]) pairs."),
        "assumptions": ["reference arithmetic is math/big", "receiver probes above 1 GiB need sparse-file support of the work filesystem"],
        "units": [
            {"name": "transfer", "pkg": T, "run": "^TestVerifC19",
             "quick": {"checks": 4000, "shards": 1, "timeout": 300},
             "thorough": {"checks": 150000, "shards": 16, "timeout": 1500}},
        ],
    },
    "C18": {
        "level": "exploration",
        "level_text": ("Round-trip and framing oracle over generated records: decode(encode(x)) == x and the decoder consumes exactly "
                       "the bytes written, for single records, sequences of 1-30 mixed records and the manifest header followed by "
                       "records, with every length/number field biased to its boundaries (path 1/1023/1024, 16-bit ids and error "
                       "texts 0/255/256/65535, bitmaps up to 1 MiB, 0 and 2^n-1 numerics); plus the converse direction "
                       "(decodable bytes re-encode to an equal value) and JSON envelopes. The input space is unbounded, so this is "
                       "sampled exploration with boundary-directed generators."),
        "level_note": "Trusted: reflect.DeepEqual as equality, rapid's generators; 32-bit lengths exercised to 1 MiB, not 4 GiB.",
        "technique": "property-based testing (rapid): round-trip + exact-consumption oracle over boundary-biased record generators and record sequences",
        "rule": ("rapid-generated control records (all 9 types) with boundary-biased fields, sequences of 1-30 records, manifest headers "
                 "with 0-200 items followed by records, random byte strings that decode (converse). Non-trivial = a field at a boundary "
                 "value or a sequence with >= 3 record types (records), empty/large manifest or trailing records (header), bytes that "
                 "decode (converse); distinct by shape fingerprint."),
        "assumptions": ["equality is reflect.DeepEqual with nil/empty slice normalised"],
        "units": [
            {"name": "transfer", "pkg": T, "run": "^TestVerifC18",
             "quick": {"checks": 3000, "shards": 1, "timeout": 600},
             "thorough": {"checks": 40000, "shards": 16, "timeout": 3000}},
        ],
    },
    "C01": {
        "level": "exploration",
        "level_text": ("Generated transfers (rapid) of generated trees through the real SendManifestMultiStream/RecvManifestMultiStream "
                       "(and the legacy single-stream pair) over the harness's in-memory multi-stream transport (plain and with QUIC "
                       "stream visibility, 1-4 connections through NewMultiConn with the production stream budget) and over real "
                       "loopback QUIC; oracle: whenever both endpoints return nil, the whole output tree (paths, kinds, sizes, SHA-256, "
                       "nothing extra) equals the source tree mapped by the root-dir/scan mode. Worker interleavings are perturbed "
                       "through the verif hook points. Sampling is the only feasible level for trees x configs x schedules."),
        "level_note": "Trusted: the harness transport (memnet, validated against quic-go behaviour), SHA-256, the expected-layout mapping; interleavings are sampled, not enumerated.",
        "technique": "property-based testing (rapid) with a whole-tree differential oracle (source tree vs. received tree) over generated trees/configurations and hook-perturbed schedules",
        "rule": ("case = tree (0-12 files, sizes biased to chunk boundaries, nested/empty dirs, unusual names) x chunk size x streams 1-8 x "
                 "connections 1-4 x resume flags x root-dir mode x scan mode x protocol x transport x perturbation plan. Non-trivial = "
                 "both sides succeeded AND some file has >= 2 chunks AND (streams >= 2 or connections >= 2); distinct by fingerprint of "
                 "tree shape, size classes and configuration."),
        "assumptions": ["success = both endpoint functions return nil", "resume-metadata directories are ignored in the comparison"],
        "units": [
            {"name": "xfer", "pkg": X, "run": "^TestVerifC01",
             "quick": {"checks": 1200, "shards": 4, "timeout": 900},
             "thorough": {"checks": 3000, "shards": 16, "timeout": 3000}},
            {"name": "srv", "pkg": "./internal/verifsrv", "run": "^TestVerifC01", "binaries": ["thruserv", "thru"],
             "quick": {"checks": 2, "shards": 3, "timeout": 900},
             "thorough": {"checks": 10, "shards": 8, "timeout": 3400}},
        ],
    },
    "C03": {
        "level": "exploration",
        "level_text": ("A bounded grid (files x chunks-per-file x streams x connections x resume) is enumerated completely and random "
                       "cases beyond it are sampled; each runs the real endpoints over the in-memory transport with QUIC stream "
                       "visibility (and real loopback QUIC); oracle: both endpoints return nil, with a watchdog and an idle detector "
                       "(no byte moved for 5 s) and a goroutine-dump classifier naming where the endpoints are parked. Liveness is "
                       "approximated by a safety check with a large bound."),
        "level_note": "Trusted: idle detector (5 s without any byte while not finished = hang; a fault-free run takes milliseconds), memnet's visibility rule (cross-checked against quic-go).",
        "technique": "bounded-exhaustive grid + property-based testing (rapid) with completion/watchdog oracle and hook-forced arrival orders",
        "rule": ("grid cells files {0,1,2,3,5} x chunks/file {0,1,2,3,7} x streams x connections x resume, plus rapid cases (small-file "
                 "trees, unusual names, forced chunk-overtakes-FileBegin order). Non-trivial = streams > total chunks, or a zero-length "
                 "file / no file at all, or connections > 1; distinct by cell or case fingerprint."),
        "assumptions": ["a run without byte movement for 5 s that has not finished is a hang"],
        "exhaustive_if_units": ["grid"],
        "units": [
            {"name": "xfer", "pkg": X, "run": "^TestVerifC03",
             "quick": {"checks": 600, "shards": 8, "timeout": 900},
             "thorough": {"checks": 1500, "shards": 16, "timeout": 3000}},
            {"name": "srv", "pkg": "./internal/verifsrv", "run": "^TestVerifC03", "binaries": ["thruserv", "thru"],
             "quick": {"checks": 2, "shards": 3, "timeout": 900},
             "thorough": {"checks": 10, "shards": 8, "timeout": 3400}},
        ],
    },
    "C02": {
        "level": "fault_enumeration",
        "level_text": ("Each case runs a fault-free reference transfer to learn how many bytes flow on every stream and direction, then "
                       "the same transfer with one injected fault: connection lost / closed by either side at a "
                       "drawn byte position of any stream and direction (quick: sampled; all positions of small fixed workloads are "
                       "enumerated with stride 3, thorough stride 1), a bit flip in a chunk payload or checksum, abort (cancel+close) of "
                       "either side at a drawn hook hit, source file shortened or deleted after the scan (before or during the run; with a same-named look-alike below the sender's working directory), "
                       "obstructed output paths; plus a delay plan on the receiver's racing exit paths. Oracle: receiver nil => whole "
                       "tree identical to the tree as scanned; sender nil => a FileDone{ok} for every file on the wire and identical "
                       "tree; both return before the idle watchdog (4 s without any byte) fires."),
        "level_note": "Trusted: memnet's close/loss semantics (modelled on quic-go: reads fail at once after close), the wire decoder written for the harness; real packet loss/reordering is not simulated.",
        "technique": "fault injection at generated and enumerated byte positions / hook hits over an in-memory transport, with whole-tree and wire-level oracles (rapid + bounded enumeration)",
        "rule": ("case = small workload (1-4 files, <= 6 chunks) x configuration x one fault (kind, connection, stream, direction, "
                 "position as fraction of the reference flow / hook-hit index / file and new length) x exit-path delay plan; "
                 "positions unit: every stride-th byte offset of every stream x direction x 3 connection-fault kinds for fixed "
                 "workloads. Non-trivial = the fault actually struck (offset < bytes that flowed, hook hit reached, mutation applied); "
                 "distinct by fault kind/position and case fingerprint."),
        "assumptions": ["abort = context cancel followed by closing that side's connection (what the applications do)",
                        "success = endpoint function returns nil"],
        "exhaustive_if_units": ["positions"],
        "units": [
            {"name": "xfer", "pkg": X, "run": "^TestVerifC02",
             "quick": {"checks": 300, "shards": 8, "timeout": 900},
             "thorough": {"checks": 2500, "shards": 16, "timeout": 3400}},
        ],
    },
    "C17": {
        "level": "exploration",
        "level_text": ("White box: the real per-file dispatch state (sendFileState: nextChunkToSend / markChunkDone / trySendEnd) is "
                       "driven by an interleaving explorer that enumerates EVERY interleaving of up to 2 (thorough 3) workers' "
                       "take/finish steps with the arrival of the resume report (two atomic sub-steps as in the code) and of the "
                       "verification verdict, for all chunk counts <= 4 (thorough 6), all bitmaps, tails 0-2 and verdicts; larger sizes "
                       "are sampled with random schedules. Black box: the real SendManifestMultiStream against a scripted receiver on "
                       "the in-memory transport with a wire tap, resume reports at generated moments. Oracle from the statement: exactly "
                       "one FileBegin per file, needed chunks exactly once, reported-present chunks not after the report, failed chunk "
                       "re-sent exactly once, exactly one FileEnd after every handed-out chunk, the verdict and the re-send."),
        "level_note": "Bounded-exhaustive only inside the stated bound and at lock granularity (the three methods are atomic under state.mu); the plan computation closure is reached by the wire-level unit only.",
        "technique": "exhaustive interleaving enumeration (DFS with state memoisation) of the real dispatch state machine + rapid-sampled schedules + wire-level scripted-receiver tests",
        "rule": ("configuration = (chunks, workers, bitmap, tail, verdict); every maximal interleaving is explored to its terminal "
                 "state (evaluations = terminal states reached). Non-trivial = >= 2 workers and a report with a non-empty bitmap; "
                 "distinct by configuration (exhaustive unit) or configuration+schedule (random unit)."),
        "assumptions": ["atomicity of the three methods under state.mu"],
        "exhaustive_if_units": ["statemachine"],
        "units": [
            {"name": "sched", "pkg": "./internal/scheduler", "run": "^TestVerifC17Sched",
             "quick": {"checks": 4000, "shards": 2, "timeout": 900},
             "thorough": {"checks": 100000, "shards": 8, "timeout": 3400}},
            {"name": "transfer", "pkg": T, "run": "^TestVerifC17",
             "quick": {"checks": 3000, "shards": 4, "timeout": 900},
             "thorough": {"checks": 40000, "shards": 16, "timeout": 3400}},
            {"name": "xfer", "pkg": X, "run": "^TestVerifC17",
             "quick": {"checks": 500, "shards": 8, "timeout": 900},
             "thorough": {"checks": 4000, "shards": 16, "timeout": 3400}},
        ],
    },
    "C06": {
        "level": "exploration",
        "level_text": ("Parser layer: for valid sidecars produced by the production writer EVERY single-bit flip and EVERY truncation is "
                       "enumerated (plus rapid-generated garbage, prefix+garbage, spliced halves, byte edits): LoadSidecar must not panic "
                       "and may only accept bytes that decode to the original value. Transfer layer: a generated partial output (files "
                       "with a drawn set of chunks present and marked) is tampered with (sidecar truncated / flipped / garbage / foreign "
                       "id, size or chunk size with all chunks marked; data file deleted or shortened; highest or a lower marked chunk "
                       "damaged on disk; chunk size changed) and resumed through the real endpoints with the sender's verification hash "
                       "delayed by a drawn amount. Oracle: success implies an identical tree (else the endpoints must fail); a damaged "
                       "highest chunk must be repaired when hashing is on. Unit 'source': metadata left by a real first attempt (complete or "
                       "cut), then the selected files or the targets of selected symbolic links are rewritten in place (same or other "
                       "length, mtime moved by hours), re-pointed or change kind, then a second attempt after a fresh production scan; "
                       "success implies the tree equals the source as it is then."),
        "level_note": "Trusted: CRC32C/xxhash collisions ignored (2^-32); the prior state is constructed by the harness with the production sidecar writer; lower-chunk damage is a counted negative control only.",
        "technique": "bounded-exhaustive mutation (all bit flips/truncations) of valid sidecars + property-based resumed transfers over tampered prior state with whole-tree oracle (rapid)",
        "rule": ("parser: all single-bit flips and truncations of 5 (thorough 60) valid sidecars + rapid damage kinds; transfer: case = "
                 "tree x chunk x streams x root mode x hash alg x prior marks x tamper kind/position x hash delay. Non-trivial = a file "
                 "with >= 2 marked and >= 1 unmarked chunk (transfer) / every enumerated sidecar (parser); distinct by tamper kind, "
                 "position class, delay and workload fingerprint; unit 'source': non-trivial = metadata of the first attempt present and a "
                 "changed file of >= 2 chunks, distinct by change list, first-attempt outcome and workload."),
        "assumptions": ["hash collisions are not searched for", "a rewrite that keeps path, size and modification second is indistinguishable by the tool's design and not generated"],
        "exhaustive_if_units": ["parser"],
        "units": [
            {"name": "transfer", "pkg": T, "run": "^TestVerifC06",
             "quick": {"checks": 2000, "shards": 2, "timeout": 900},
             "thorough": {"checks": 20000, "shards": 16, "timeout": 3400}},
            {"name": "xfer", "pkg": X, "run": "^TestVerifC06",
             "quick": {"checks": 300, "shards": 6, "timeout": 900},
             "thorough": {"checks": 2500, "shards": 16, "timeout": 3400}},
            {"name": "source", "pkg": X, "run": "^TestVerifSrcC06",
             "quick": {"checks": 300, "shards": 4, "timeout": 900},
             "thorough": {"checks": 3000, "shards": 16, "timeout": 3400}},
        ],
    },
    "C04": {
        "level": "fault_enumeration",
        "level_text": ("Histories of 1-3 interrupted runs followed by an uninterrupted resumed run. Every run executes the real sender and "
                       "receiver inside a child process (the test binary re-executed) over the in-memory transport, so only the output "
                       "directory survives; the child journals every crash-point hook hit (file truncated, chunk written, chunk marked, "
                       "flush begin / temp written / renamed, finalize before/after) and SIGKILLs itself at the drawn hit, or loses the "
                       "connection there and exits with or without flushing; metadata flushes are additionally triggered concurrently "
                       "with the chunk writers. A fixed workload is killed at EVERY hook hit 1..K under two flush policies. Oracle: the "
                       "final run succeeds with the identical tree; chunks marked in loadable metadata before a run are advertised in that "
                       "run's first resume report (parsed from the wire) and, below the highest marked chunk, not sent again."),
        "level_note": "SIGKILL keeps the page cache: this decides process death, not power loss. Complete at hook granularity only. Trusted: the harness's wire decoder and the production LoadSidecar used for inspection.",
        "technique": "crash-point enumeration and generated interruption chains with real SIGKILL of a child process at instrumented points; whole-tree and wire-level oracles (rapid + enumeration)",
        "rule": ("history = workload (1-4 files, <= 12 chunks, chunk 16-512, 1-4 streams, both root modes) x chain of interruptions "
                 "(kill or connection drop at a hook-hit fraction, flush-every-n-marks policy, exit with/without flush) x hash delay; "
                 "crashpoints unit: every k in 1..K for fixed workloads x 2 flush policies. Non-trivial = at least one kill after a chunk "
                 "had been marked; distinct by chain and workload fingerprint / by (workload, k, policy)."),
        "assumptions": ["process death is modelled by SIGKILL (page cache survives)"],
        "exhaustive_if_units": ["crashpoints"],
        "units": [
            {"name": "xfer", "pkg": X, "run": "^TestVerifC04|^TestVerifC0405", "common": {"env": {"VERIF_CRASH_PROP": "C04"}},
             "quick": {"checks": 220, "shards": 8, "timeout": 900},
             "thorough": {"checks": 300, "shards": 16, "timeout": 3400}},
            {"name": "srv", "pkg": "./internal/verifsrv", "run": "^TestVerifC04", "binaries": ["thruserv", "thru"],
             "quick": {"checks": 2, "shards": 3, "timeout": 900},
             "thorough": {"checks": 10, "shards": 8, "timeout": 3400}},
        ],
    },
    "C05": {
        "level": "fault_enumeration",
        "level_text": ("Same child-process crash machinery as C04, biased to the write -> mark -> flush window (2-4 streams, a metadata "
                       "flush triggered concurrently at every 1st-3rd chunk mark, fresh and already-resumed output directories). After "
                       "EVERY kill the parent inspects the disk: each *.sbxmap the tool would load is either rejected by LoadSidecar or "
                       "marks only chunks whose bytes in the output file equal the source; a sidecar that was valid before the run or whose "
                       "flush completed in it must still load after the kill (atomic replacement). A fixed workload is killed at every "
                       "hook hit 1..K under two flush policies."),
        "level_note": "SIGKILL keeps the page cache (process death, not power loss); observation instants are exactly the hook sites. Trusted: LoadSidecar for reading back (its own soundness is C06's subject).",
        "technique": "crash-point enumeration with real SIGKILL of a child process at instrumented points and on-disk invariant inspection (rapid + enumeration)",
        "rule": ("as C04, kills only; non-trivial = a kill after which metadata on disk marks >= 1 chunk while >= 1 written chunk is not "
                 "yet flushed; crashpoints unit: every k in 1..K x 2 flush policies (all counted as distinct)."),
        "assumptions": ["process death is modelled by SIGKILL (page cache survives)"],
        "exhaustive_if_units": ["crashpoints"],
        "units": [
            {"name": "xfer", "pkg": X, "run": "^TestVerifC05|^TestVerifC0405", "common": {"env": {"VERIF_CRASH_PROP": "C05"}},
             "quick": {"checks": 220, "shards": 8, "timeout": 900},
             "thorough": {"checks": 300, "shards": 16, "timeout": 3400}},
        ],
    },
    "C07": {
        "level": "exploration",
        "level_text": ("A hostile sender script (hand-encoded wire records, so nothing passes through the repository's validating writers) "
                       "sends manifests whose root, directory and file rel_path, item id and FileBegin rel_path are drawn from an escape "
                       "grammar (parent references, absolute paths, doubled and back slashes, NUL, %2e, 300-byte names, names of sentinel "
                       "files) to the real receivers (multi-stream in both root-dir modes with resume on/off, legacy single-stream manifest "
                       "receiver, RecvFile), with chunk frames carrying valid CRCs so that writes really happen. The output directory sits "
                       "7 levels deep in a sandbox populated with sentinels; oracle: a (path,type,size,hash,mtime) snapshot of everything "
                       "outside the output directory is unchanged. Mostly one field is hostile per case so that a failure names the field."),
        "level_note": "Only sender-controlled strings; parent-reference depth <= 6 < sandbox depth 7, deeper escapes follow by monotonicity; pre-existing symlinks inside the output directory are out of scope.",
        "technique": "property-based testing (rapid) with a grammar-based hostile-input generator and a filesystem-snapshot oracle",
        "rule": ("case = manifest (0-2 dirs, 1-3 files) x hostile field set x escape string(s) x receiver variant x root mode x resume. "
                 "Non-trivial = every case (the hostile string is delivered in a well-formed record); distinct by field set, variant, modes "
                 "and the normalised shape of the escape strings."),
        "assumptions": ["escapes with more than 6 parent references behave like those with 6"],
        "units": [
            {"name": "xfer", "pkg": X, "run": "^TestVerifC07",
             "quick": {"checks": 700, "shards": 4, "timeout": 900},
             "thorough": {"checks": 8000, "shards": 16, "timeout": 3400}},
            {"name": "app", "pkg": "./internal/app", "run": "^TestVerifC07",
             "quick": {"checks": 1500, "shards": 2, "timeout": 600},
             "thorough": {"checks": 20000, "shards": 8, "timeout": 1800}},
        ],
    },
    "C11": {
        "level": "exploration",
        "level_text": ("The real Hub is run under a deterministic scheduler: worker goroutines yield to a controller before every "
                       "operation and at every verif hook point of the hub (peer list copied / connection unlinked / before the "
                       "empty-session collection / session closed / Add entered - all outside the mutex), and exactly one worker runs "
                       "at a time, so an execution is a function of the choice sequence. For a bounded program family (pairs, thorough: "
                       "triples, of short scripts over one session) EVERY schedule is enumerated; random programs (2-4 workers x 1-3 "
                       "operations, 2 sessions, 3 peer ids incl. replacement) get random schedules. Oracle: no worker panics, none "
                       "deadlocks, a connection that was added and never removed/replaced/closed is listed and routable, a connection "
                       "whose remove returned is not listed, and no hub state remains for a session all of whose connections left."),
        "level_note": "Preemption inside a locked phase is not explored (the lock makes it unobservable); the per-connection writer goroutines run freely.",
        "technique": "controlled-schedule exploration (stateless DFS over scheduler choices at hook points, exhaustive for a bounded program family) + rapid-generated programs and schedules; invariant oracle with white-box read of the hub maps",
        "rule": ("case = program x schedule. Non-trivial = a schedule in which some worker was parked between the phases of an operation "
                 "while another worker ran (overlap); distinct by program (exhaustive unit: all its schedules are run) or program+schedule."),
        "assumptions": ["hook points are the only preemption points considered"],
        "exhaustive_if_units": ["exhaustive"],
        "units": [
            {"name": "handler", "pkg": "./cmd/thruserv", "run": "^TestVerifC11Handler",
             "quick": {"checks": 1, "shards": 1, "timeout": 900},
             "thorough": {"checks": 1, "shards": 1, "timeout": 900}},
            {"name": "peers", "pkg": "./internal/peers", "run": "^TestVerifC11",
             "quick": {"checks": 8000, "shards": 4, "timeout": 900},
             "thorough": {"checks": 20000, "shards": 16, "timeout": 3400}},
        ],
    },
    "C12": {
        "level": "exploration",
        "level_text": ("The real SnapshotSender admission code (handlePeerJoined / handleManifestAccept / handlePeerLeft / "
                       "maybeStartTransfers / runTransfer / cleanup) is driven with generated event sequences over 3-5 receivers; the "
                       "transfer itself is a stub that registers each run instance and blocks until the harness releases it with success, "
                       "failure, or - for a cancelled instance - its context error, so the order between a leave and the return of the "
                       "cancelled goroutine (including leave, re-accept, then the old instance returns) is a generated choice. After "
                       "every event the harness waits for quiescence (hook at the end of runTransfer) and checks invariants: at most "
                       "max-receivers live instances (measured on the stubs), starts in accept order, no free slot while receivers wait, "
                       "no instance started with a cancelled context, leave cancels, every receiver in at most one of queued / "
                       "transferring / done / failed and consistent with the queue and slot tables. All sequences of length 3 (thorough 5) "
                       "over a 12-event alphabet are enumerated for max-receivers 1 and 2."),
        "level_note": "The real transfer function is stubbed (the property is about admission); emitted envelopes are not captured (no signaling connection), state is read white-box under the sender's mutex.",
        "technique": "model-based stateful property testing (rapid-generated and bounded-exhaustive event sequences) with invariants checked after every step against stub-measured concurrency",
        "rule": ("sequence of join/accept/leave/success/failure/cancelled-return/cleanup events; non-trivial = at some point receivers "
                 "waited while all slots were busy; distinct by (max-receivers, sequence)."),
        "assumptions": ["quiescence = every released instance reached the end of runTransfer and every slot has an entered instance"],
        "exhaustive_if_units": ["exhaustive"],
        "units": [
            {"name": "app", "pkg": "./internal/app", "run": "^TestVerifC12",
             "quick": {"checks": 1500, "shards": 4, "timeout": 900},
             "thorough": {"checks": 20000, "shards": 16, "timeout": 3400}},
            {"name": "srv", "pkg": "./internal/verifsrv", "run": "^TestVerifC12", "binaries": ["thruserv", "thru"],
             "quick": {"checks": 2, "shards": 2, "timeout": 900},
             "thorough": {"checks": 8, "shards": 6, "timeout": 3400}},
        ],
    },
    "C13": {
        "level": "exploration",
        "level_text": ("Generated forests (1-4 parents under distinct grand-parents so that equal base names occur; regular files, nested "
                       "and empty directories, names that look like the tool's own 1_/2_ prefixes, symlinks to files / directories / "
                       "nothing / an ancestor, FIFOs) and generated argument lists (directories, single files, entries inside a given "
                       "directory, duplicates, '.', trailing slashes, a/../a spellings, symlinked arguments) are scanned with the "
                       "production pair manifest.ScanPaths + app.buildPathResolver. Oracle: an independent lstat walk written in the "
                       "harness: every directory and regular file beneath each argument is listed exactly once under that argument's "
                       "name; rel_paths are distinct and sorted; each file's size equals what reading the resolved path returns and the "
                       "resolved path is the originating file (os.SameFile); counts add up; a rescan is deeply equal; entries that are "
                       "neither plain files nor directories are absent or listed with their readable size."),
        "level_note": "Runs as root (permission-denied branches unreachable); Windows path semantics not exercised; for symlinked directory arguments only faithfulness, not completeness, is required.",
        "technique": "property-based testing (rapid) with a differential oracle: production scanner + resolver versus an independent reference walk",
        "rule": ("case = forest x argument list; non-trivial = >= 2 arguments and (base-name collision or prefix look-alike or symlink "
                 "or overlap or special entry); distinct by class set, top-level names and item count."),
        "assumptions": ["the documented disambiguation (ordinal prefix k_ for repeated base names) is the reference naming"],
        "units": [
            {"name": "xfer", "pkg": X, "run": "^TestVerifC13",
             "quick": {"checks": 1200, "shards": 4, "timeout": 900},
             "thorough": {"checks": 15000, "shards": 16, "timeout": 3400}},
        ],
    },
    "C15": {
        "level": "exploration",
        "level_text": ("Decoder ring: every record reader of the control protocol, the control header, the legacy manifest and file "
                       "receivers are fed (through a stream that ends with EOF) every truncation of every valid record, every valid record "
                       "with hostile length constants (0xFFFFFFFF, 0x7FFFFFFF, 0x80000000 ...) spliced in at every offset, and rapid-"
                       "generated garbage / valid prefix + garbage / edited record sequences; oracle: no panic, returns, and allocates at "
                       "most 256 KiB + 16 x input bytes (runtime.MemStats). Endpoint ring: a scripted peer plays an honest session up to a "
                       "drawn stage and then deviates (22 sender-side and 13 receiver-side deviations: garbage, unknown types, duplicate or "
                       "inconsistent records, absurd counts and lengths, bad CRC, truncated records, early End) against the real "
                       "RecvManifestMultiStream / SendManifestMultiStream, then ends its input; cases run in batches inside a child "
                       "process so that a panic in a background goroutine is attributed to its case. Oracle: no crash, the endpoint "
                       "returns within 2.5 s after the input ended, allocation <= 16 MiB + 16 x bytes exchanged. Unit 'dumb': the benchmark receive "
                       "mode (recvDumbDiscardMulti) over 1-4 in-memory connections carrying valid, cut, absurd-size, garbage or no streams; "
                       "oracle: no panic, returns within 20 s after every input ended, error whenever a stream ended inside its record."),
        "level_note": "Memory is measured per case, not proven bounded; the allocation bounds are far above what honest sessions of the same size need (calibrated) and far below the 1 GiB-4 GiB a trusted length prefix costs.",
        "technique": "fuzz-style generated and enumerated malformed input (truncation/splice enumeration + rapid) against decoders, and stage-aware hostile-peer scripts against the real endpoints, with crash / termination / allocation oracles",
        "rule": ("decoders: (decoder, bytes) cases; staged: (side, stage, deviation, argument, close mode) cases drawn from a seeded PRNG. "
                 "Non-trivial = input of >= 5 bytes (decoders) / every staged case (each gets past the magic and at least one "
                 "length-prefixed field or deviates at a later stage); distinct by input prefix / case description; dumb: non-trivial = "
                 ">= 2 connections with at least one broken stream, distinct by stream kinds and lengths."),
        "assumptions": ["allocation measured with runtime.MemStats.TotalAlloc in a process that runs one case at a time"],
        "units": [
            {"name": "transfer", "pkg": T, "run": "^TestVerifC15Decoders|^TestVerifC15Staged",
             "quick": {"checks": 3000, "shards": 4, "timeout": 900, "env": {"VERIF_C15_CASES": 200}},
             "thorough": {"checks": 40000, "shards": 16, "timeout": 3400, "env": {"VERIF_C15_CASES": 3000}}},
            {"name": "dumb", "pkg": "./internal/app", "run": "^TestVerifC15Dumb",
             "quick": {"checks": 1500, "shards": 2, "timeout": 900},
             "thorough": {"checks": 40000, "shards": 8, "timeout": 3400}},
        ],
    },
    "C10": {
        "level": "exploration",
        "level_text": ("The real thruserv binary (built from the tree, rate limits disabled so that they cannot interfere) is driven by "
                       "websocket clients through rapid-generated histories: sessions created, peers connecting (peer ids from a small "
                       "pool, so duplicates and reconnects with the same id occur, incl. ids with URL-significant characters), "
                       "disconnecting, addressed / unaddressed / spoofed (from and session_id forged) / malformed (cut JSON, wrong v, "
                       "missing msg_id or type, binary frame) messages, up to three sessions alive at once; every payload carries a unique "
                       "token. A reference routing model decides per token who must, may and must not receive it; after each send the "
                       "harness waits for the modelled deliveries (barrier) and after the history for a quiescence window, then compares "
                       "every client's log: exactly the named peer / every other registered peer of the session, nobody in another "
                       "session, from = the author's connect-time id, no duplicates, per-author order, peer_not_found to the author only."),
        "level_note": "Server-originated events (peer_list, peer_joined, peer_left) are barriers only; quiescence window 150 ms on loopback bounds how late a stray delivery is noticed; concurrency of the hub itself is C11's subject.",
        "technique": "model-based stateful property testing (rapid) of the real server binary against a reference routing model with token-tagged messages",
        "rule": ("history of 4-25 actions; non-trivial = >= 2 sessions with open connections at once AND >= 1 addressed AND >= 1 unaddressed "
                 "message AND (a spoof or a duplicate-id connect or an unknown addressee); distinct by history."),
        "assumptions": ["deliveries on loopback complete within the 3 s barrier / 150 ms final window"],
        "units": [
            {"name": "srv", "pkg": "./internal/verifsrv", "run": "^TestVerifC10Routing$", "binaries": ["thruserv"],
             "quick": {"checks": 60, "shards": 8, "timeout": 900},
             "thorough": {"checks": 700, "shards": 16, "timeout": 3400}},
            {"name": "flood", "pkg": "./internal/verifsrv", "run": "^TestVerifC10Flood$", "binaries": ["thruserv"],
             "quick": {"checks": 6, "shards": 4, "timeout": 900},
             "thorough": {"checks": 30, "shards": 6, "timeout": 3400}},
        ],
    },
    "C16": {
        "level": "exploration",
        "level_text": ("Configurations of the documented thruserv flags are generated (each limit and time-out at default / small / 0, "
                       "TURN issuing off or on with 10 URL spellings x 4 endpoints x 5 secrets x 3 TTLs, peer ids with URL-significant "
                       "characters); every single flag at small and at 0 is covered deterministically, combinations by rapid. For each "
                       "configuration a fresh real server is started and the real client functions run against it: "
                       "clienthttp.CreateSession, app.buildWebSocketURL + wsclient.Dial + ReadLoop for both roles, and ice.parseTurnServer "
                       "on every minted URL. Oracle: the session is created and is the one the server logged; both roles connect and the "
                       "peer ids arrive unchanged (peer_list / peer_joined); the receiver is admitted; the parsed TURN user is "
                       "<expiry>:<peer id> with expiry in (now, now+ttl], the parsed password equals base64(HMAC-SHA1(secret, user)) "
                       "recomputed by the harness, endpoint and TLS/TCP/servername/insecure options are as configured."),
        "level_note": "No TURN server is available offline: only mint -> parse agreement is checked, as the statement says. Server start ~30 ms per configuration.",
        "technique": "property-based configuration testing (rapid + single-flag covering set) of the real server binary with the real client functions; round-trip oracle for URLs and TURN credentials",
        "rule": ("case = flag assignment x TURN setup x peer ids; non-trivial = >= 1 flag at 0, or TURN on with a non-canonical spelling, or a "
                 "peer id that needs escaping; distinct by configuration."),
        "assumptions": ["'small' values are the smallest ones whose documented meaning still allows one session with one host and one receiver"],
        "units": [
            {"name": "srv", "pkg": "./internal/verifsrv", "run": "^TestVerifC16", "binaries": ["thruserv"],
             "quick": {"checks": 80, "shards": 8, "timeout": 900},
             "thorough": {"checks": 400, "shards": 16, "timeout": 3400}},
        ],
    },
    "C14": {
        "level": "exploration",
        "level_text": ("Real thruserv processes are started with generated limit configurations and hit with concurrent bursts (8-32 "
                       "simultaneous session creates / receiver joins / socket upgrades released together), messages of drawn sizes and "
                       "message floods at drawn rates. Schedule-independent oracles: live sessions that received 201 <= max-sessions; "
                       "receivers connected at once <= max-receivers-per-sender; open sockets <= max-ws-connections; no message longer "
                       "than max-message-bytes is delivered and one within the limit is; messages delivered in a client-measured interval "
                       "<= burst + rate x dt (+1); with a limit of 0 a run that exceeds the default is never refused. Lifetime: a join "
                       "right after creation is admitted, one 0.5 s after the configured lifetime or 0.3 s after the host left is refused "
                       "with 404. In-process: rapid create/delete/lookup/expire sequences on session.Store against a map model "
                       "(live codes distinct, dead codes not found)."),
        "level_note": "The collision-retry loop of Store.Create cannot be reached by search (32^8 codes); lifetime verdicts have a +-0.5 s blind zone; per-IP rate limits are exercised from one loopback address.",
        "technique": "concurrent-burst and generated-configuration testing of the real server binary with counting oracles (rapid + fixed probe set), plus a model-based store test",
        "rule": ("probe = (limit kind, limit value, burst size / message size / rate); non-trivial = the burst actually hit the limit "
                 "(>= 1 refusal) or probed a 0 = unlimited setting or a lifetime boundary; distinct by probe parameters."),
        "assumptions": ["a client-measured interval contains the server-side interval, so rate bounds computed from it are sound"],
        "units": [
            {"name": "srv", "pkg": "./internal/verifsrv", "run": "^TestVerifC14", "binaries": ["thruserv"],
             "quick": {"checks": 12, "shards": 6, "timeout": 900},
             "thorough": {"checks": 150, "shards": 16, "timeout": 3400}},
            {"name": "session", "pkg": "./internal/session", "run": "^TestVerifC14",
             "quick": {"checks": 300, "shards": 2, "timeout": 900},
             "thorough": {"checks": 4000, "shards": 8, "timeout": 3400}},
        ],
    },
    "C08": {
        "level": "exploration",
        "level_text": ("All cases run the real authenticateTransport over real loopback QUIC connections (transferquic.QUICConn, the only "
                       "transport that exports TLS keying material), a fresh TLS session per case. Enumerated: all 64 pairs of 8 join "
                       "codes on honest ends (accepted iff equal); EVERY single-bit flip (50 bytes x 8) and EVERY truncation of either "
                       "authentication message between honest ends holding the same code (the side that receives it must reject). "
                       "Generated (rapid): rogue listener vs honest sender, rogue dialer vs honest receiver with 11 strategies (random "
                       "proof, proof for another code, replay of a proof captured on another TLS session with the same code, reflection, "
                       "reflection with rewritten role byte, wrong version, role swap, short, long, silence, zero MAC), and a relay "
                       "between two TLS sessions whose honest ends hold the same code (verbatim, nonce or role rewritten): the honest "
                       "side(s) must return an error. Extra connections (unit 'extra'): the host's real dialExtraConns and the receiver's real "
                       "acceptExtraConns are run against each other (1-4 connections, same or different code: all or none accepted, and a "
                       "nonce sent through every returned connection must arrive on a returned connection of the peer) and against peers "
                       "without the code: a rogue dialer after 0-3 genuine connections, a rogue listener the sender is pointed at, and a "
                       "relay that terminates the sender's TLS session and opens its own to the receiver (messages relayed verbatim); no "
                       "such connection may appear in a returned list, and the failing peer receives nothing beyond the 50-byte "
                       "authentication message. Unit 'srv' (TestVerifC08E2E) runs thruserv, `thru host` and `thru join` built from the "
                       "tree under test as processes with an attacker on the network path who does not hold the code (the receiver's "
                       "candidate list is rewritten in signaling so that the peers meet only through the attacker's UDP port). Every "
                       "generated case (tree, 1-4 connections) meets five attacker behaviours: forward everything (control: the transfer "
                       "must succeed), forward the primary flow and terminate every additional flow as a QUIC endpoint of its own with a "
                       "second TLS session to the receiver (stream bytes copied verbatim), terminate every flow, answer in the receiver's "
                       "place (authentication message reflected), dial the receiver in the sender's place and send a tree of its own. "
                       "Oracle: a flow whose halves are different TLS sessions carries nothing beyond the authentication exchange, the "
                       "receiver writes nothing it got from the attacker, and a join that exits 0 holds exactly the hosted tree."),
        "level_note": "Assumes HMAC-SHA256 and the TLS exporter are sound; the attacker family is finite and generated. The wiring inside runICEQUICTransfer/runTransfer (which connection is authenticated with which keying material, and that nothing is sent or accepted after a failed authentication) is exercised only by unit 'srv' with the real binaries, i.e. over the attacker behaviours listed there; the exhaustive alteration classes run against authenticateTransport and the two functions that add extra connections.",
        "technique": "exhaustive single-bit/truncation mutation of the handshake messages + generated attacker strategies (rapid) against the real handshake over real QUIC/TLS sessions",
        "rule": ("case = code pair | alteration (message, bit or cut) | (attacker position, strategy, honest code); non-trivial = the honest "
                 "side got a well-formed message and had to decide by MAC/role/version (all alteration and attacker cases) or a code pair; "
                 "distinct by case parameters."),
        "assumptions": ["HMAC-SHA256 and TLS exporter soundness"],
        "units": [
            {"name": "app", "pkg": "./internal/app", "run": "^TestVerifC08",
             "quick": {"checks": 36, "shards": 8, "timeout": 900},
             "thorough": {"checks": 600, "shards": 16, "timeout": 3400}},
            {"name": "srv", "pkg": "./internal/verifsrv", "run": "^TestVerifC08", "binaries": ["thruserv", "thru"],
             "quick": {"checks": 2, "shards": 4, "timeout": 900},
             "thorough": {"checks": 8, "shards": 8, "timeout": 3400}},
        ],
    },
    "C09": {
        "level": "exploration",
        "level_text": ("Dial side, in process: a real QUIC listener on this host (reachable under several local addresses: loopback v4/v6 "
                       "and the interface addresses) records every server-side connection and when it ends. Candidate lists are "
                       "generated: 1-5 reachable addresses of that one listener in drawn order, plus unreachable (closed port, black "
                       "hole), duplicate, relay-prefixed and malformed entries. The completion order of the parallel handshakes is a "
                       "generated value: hook ice.probe.dialed holds every attempt except the drawn first one until hook "
                       "ice.probe.returning has fired (the caller has taken the winner), so 'a second handshake completes after the "
                       "winner was taken, before cancellation' is produced on purpose; unforced runs rely on natural timing. Oracle: "
                       "ProbeAndDial returns one live connection (identified on the listener by a nonce), and 500 ms later that "
                       "connection is the ONLY one still open on the listener."),
        "level_note": "quic-go internals are not scheduled by the harness; the accept side lives in snapshotReceiver.runTransfer (ends in os.Exit) and is observable only through the real binaries - not decided by this check, see DESIGN.md.",
        "technique": "property-based testing (rapid) of the real prober against a real QUIC listener with hook-forced completion orders; invariant on the set of connections left open",
        "rule": ("case = candidate list x first completer x forced/natural order; non-trivial = >= 2 reachable candidates and >= 2 "
                 "handshakes completed on the listener; distinct by counts, forcing and extra-candidate kinds."),
        "assumptions": ["500 ms grace suffices for CONNECTION_CLOSE of losers on loopback"],
        "units": [
            {"name": "ice", "pkg": "./internal/ice", "run": "^TestVerifC09",
             "quick": {"checks": 12, "shards": 8, "timeout": 900},
             "thorough": {"checks": 120, "shards": 16, "timeout": 3400}},
            {"name": "srv", "pkg": "./internal/verifsrv", "run": "^TestVerifC09", "binaries": ["thruserv", "thru"],
             "quick": {"checks": 3, "shards": 4, "timeout": 900},
             "thorough": {"checks": 14, "shards": 8, "timeout": 3400}},
        ],
    },
}

# Units and generator classes added after the first version of the texts above.
_ADDENDA = {
    "C01": ("Unit 'prior' starts from the output state of an earlier interrupted attempt, possibly made with another chunk size (also one "
            "that keeps a file's chunk count) and with holes below the highest received chunk. Unit 'quic' runs about a tenth of the "
            "generated cases over real quic-go connections on the loopback interface (production TLS/QUIC configuration, transferquic "
            "connections, 1-4 connections through NewMultiConn)."),
    "C03": ("Resumed cases include 'late report' ones: the highest recorded chunk is damaged and the receiver's control records spend "
            "450-600 ms in flight (non-blocking per-piece latency of the in-memory transport), so that the resume report arrives after "
            "the sender's grace period and after FileEnd. Unit 'quic' runs about a tenth of the random cases over real loopback QUIC."),
    "C05": ("A quarter of the generated histories are 're-geometry' ones: an attempt that left marks, then an attempt with another chunk "
            "size under which some file keeps its chunk count."),
    "C06": ("Unit 'interrupted' combines tampering with crashes: a killed attempt that left marks, deletion or shortening of the partial "
            "data file, a second attempt killed by SIGKILL around the point where the receiver re-creates the file and decides about "
            "the old metadata, then the final attempt (same oracle)."),
    "C07": ("Escapes are also padded with neutral segments past the 1024-byte and 64 KiB length limits. Unit 'app-root' (package app): "
            "hostile root names of a manifest offer against hasResumeData/clearResumeData in a sandbox with metadata directories "
            "planted at every level (same snapshot oracle)."),
    "C09": ("Unit 'e2e' decides the clause about BOTH peers with the real binaries: thruserv, `thru host` and `thru join` (built from the tree "
            "under test) run as processes on this machine, whose every local address is a candidate, so the sender probes the receiver "
            "under several addresses in parallel while the receiver sees the connections arrive in its own order; generated trees, "
            "--total-connections 1/2/4, one or two receivers in turn. Oracle: `thru join` exits 0 within 60 s and its output directory "
            "holds exactly the hosted tree (authentication and transfer started on one and the same connection). Non-trivial only on a "
            "host with at least two usable local addresses."),
    "C11": ("Unit 'blocked-writer': 24 enumerated ways of leaving while the connection's writer is blocked in its send function (slow "
            "path of remove). Unit 'stress': real concurrency without the scheduler (join/reconnect/leave/close-session against "
            "send/broadcast/list for 1.5 s, thorough 20 s); a recovered panic, a hang or left-over state is a violation - it reaches "
            "interleavings between the instrumented points but proves nothing when it is clean."),
    "C14": ("The lifetime probe runs with a 1.2 s lifetime, with lifetime 0 (disabled: the code keeps admitting until the host leaves) "
            "and with 1 h."),
    "C15": ("Deviations include a chunk frame for an empty file and a hostile receiver that ends only its control stream 25-400 ms after "
            "its last record while connection and data streams stay open."),
    "C16": ("With --ws-msgs-per-sec 0 the host sends burst+25 addressed messages and all must reach the receiver."),
    "C18": ("Paths also take byte lengths of 1025-4096 with multi-byte-only alphabets: an encoder refusal is fine, an emitted record must "
            "decode."),
    "C17": ("Unit 'wire' (black box): the real sender and receiver run over the in-memory transport with a tap on every connection; "
            "the taped bytes are decoded with the harness's own decoder and checked per file: exactly one FileBegin and one FileEnd, "
            "every chunk the receiver did not report as present in exactly one frame, reported ones in at most one (the verified chunk "
            "at most two), reference frame lengths, FileEnd's frame count equal to the frames sent, no frame after FileEnd; prior "
            "states, damaged verified chunks, hook perturbations and late resume reports vary the dispatcher's path."),
    "C19": ("A third of the resume probes start from metadata (written by the production function) and a full-length data file of an "
            "attempt with another chunk size: the metadata must end with the new geometry."),
}
for _id, _t in _ADDENDA.items():
    CHECKS[_id]["level_text"] = CHECKS[_id]["level_text"] + " " + _t
CHECKS["C11"]["technique"] = CHECKS["C11"]["technique"].replace(
    "+ rapid-generated programs and schedules;", "+ rapid-generated programs and schedules + a real-concurrency stress run;")
CHECKS["C03"]["level_text"] += (" Unit 'e2e' runs the real binaries (thruserv, `thru host`, `thru join`) as processes: a session is "
                                "established through the signaling server and the join process must exit 0 within 60 s with exactly "
                                "the hosted tree (the host's own verdict is not observable from outside and is not judged).")
CHECKS["C04"]["level_text"] += (" Unit 'e2e' uses the real binaries: thruserv and `thru host` run as processes, a first (and possibly second) "
                                "`thru join` is killed with SIGKILL a drawn 0-600 ms after it reported its transfer connection (6-48 MB file), the "
                                "last `thru join` answers the resume prompt with yes and must exit 0 within 90 s with exactly the hosted tree.")
_FLIP = (" A sixth of the interruptions are of the kind 'flip': the receiver process survives, one bit of a chunk payload (not the last chunk "
         "of a file with three or more chunks) is inverted in flight and that payload arrives 120 ms late, the sender's workers are "
         "slowed by 2 ms per chunk so that the chunks of a file spread over the data streams, and the goroutine that holds the file's "
         "verified last chunk waits between checksum and write until the checksum failure of the damaged chunk has been processed "
         "(failure-finalize of the file) or 300 ms have passed - the schedule 'one stream fails while another still has a chunk of "
         "the same file in its hands' (about 40 such late writes per quick run).")
CHECKS["C04"]["level_text"] += _FLIP
CHECKS["C05"]["level_text"] += _FLIP
CHECKS["C14"]["level_text"] += (" Message sizes are exact on the wire and drawn around the limit (limit-17 ... limit+64). Request rates: websocket connects "
                                "and session creations are hammered from one address for 1.2 s against --ws-connects-per-min / --session-creates-per-min "
                                "(admitted <= burst + rate*elapsed + 1; 0 = unlimited), and at 6 per minute with burst 2 in two 300 ms bursts around 2.4 s of silence "
                                "(same bound over the whole time: a drained address must not be forgotten early).")
CHECKS["C15"]["level_text"] += (" The decoder ring also feeds announced counts that agree with each other (chunk count and bitmap length) and lengths that "
                                "are whole multiples of the readers' 64 KiB step with all but the last step delivered; every decoder call runs under a "
                                "6 s watchdog, so a decoder that does not return on ended input is a violation and not a harness time-out.")
CHECKS["C09"]["level_text"] += (" Candidate lists also contain an address in another spelling ([::ffff:a.b.c.d]:p, expanded IPv6).")
CHECKS["C12"]["level_text"] += (" Injected transfer failures include errors that wrap context.Canceled / DeadlineExceeded while the run's own context is "
                                "alive; a slot that stays taken for a receiver without a running transfer for 26 s is a violation.")
CHECKS["C17"]["level_text"] += (" Unit 'sched' (package scheduler) plays the sender's protocol against the real HybridScheduler (Next when a slot is free, "
                                "Add with StartedAt, UpdateRemaining, Remove) for generated slot counts, small-slot fractions, size classes, completion "
                                "orders and clocks: no file handed out twice, and with nothing active and files waiting one must be handed out. The "
                                "generated transfers of C01/C03/C17 draw the scheduler's size-class thresholds relative to the chunk size.")
CHECKS["C18"]["level_text"] += (" Manifest root names that are not UTF-8 are generated as well.")
CHECKS["C04"]["level_text"] += (" In half of the real-binary cases both prompt answers are on the join's standard input from the start (scripted use).")
CHECKS["C10"]["level_text"] += (" Unit 'flood': the recipient stops reading while 10-45 MB (600-1400 messages) are addressed to it, so that the server's "
                                "per-connection queue overflows, then reads on; what arrives must arrive once and in sending order, a bystander sees none "
                                "of it (what was dropped while it did not read is not judged).")
CHECKS["C11"]["level_text"] += (" Unit 'handler' (package main of thruserv): the real handleWebSocket behind a listener whose connections fail at the "
                                "w-th write (1-6) or r-th read (1-4) after the upgrade, sender or receiver, alone or next to another peer; once the handler "
                                "has returned the peer must be unlisted, unroutable and absent from a later joiner's peer list.")
CHECKS["C12"]["level_text"] += (" Further events: a failure whose receiver accepts again inside the unlocked window of the failure path, and a burst of 70 "
                                "signaling messages from a transferring receiver (the envelope handler must not wait for the transfer to read them).")
CHECKS["C09"]["level_text"] += (" Unit 'relay-only': silent direct candidates and a peer reachable under a relay-prefixed candidate only.")
CHECKS["C08"]["level_text"] += (" Since round 7 a sixth attacker behaviour leaves the primary and the first additional connection untouched and terminates "
                                "the later ones.")
CHECKS["C15"]["level_text"] += (" Endpoint ring: FileBegin naming hash algorithm 3, 4, 5, 128 or 255 for a file with recorded chunks in the output directory.")
CHECKS["C16"]["level_text"] += (" After host and receiver have left, another host must be able to create a session (skipped when a creation rate or burst "
                                "is configured).")
CHECKS["C13"]["level_text"] += (" One case in 32 gives files modification times ahead of the clock and re-scans one second later.")
CHECKS["C01"]["level_text"] += (" Unit 'e2e' runs the complete applications over real QUIC (thruserv, `thru host`, `thru join` as processes): "
                                "whenever `thru join` exits 0 its output directory must hold exactly the hosted tree.")
CHECKS["C12"]["level_text"] += (" Unit 'e2e' uses the real binaries: `thru host --max-receivers M` (M = 1, 2) serves M+1 or M+2 receivers that "
                                "join almost together while a 12-40 MiB file keeps the transfers overlapping; the host's own status lines must never "
                                "show more than M active transfers and every `thru join` must exit 0 with exactly the hosted tree.")
CHECKS["C09"]["level_note"] = ("quic-go internals are not scheduled by the harness. The accept side lives in snapshotReceiver.runTransfer (ends in os.Exit) "
                               "and is decided through the real binaries only (unit 'e2e'), which is non-trivial only on a host with at least two usable "
                               "local addresses; relay (TURN) candidates are not exercised end to end.")
CHECKS["C14"]["level_note"] = ("The collision-retry loop of the store is reached by scripting crypto/rand.Reader in the in-process store unit only (the server "
                               "binary runs with real randomness); lifetime verdicts have a +-0.5 s blind zone; per-IP rate limits are exercised from one "
                               "loopback address.")
CHECKS["C12"]["level_note"] = ("In the white-box units the real transfer function is stubbed (the property is about admission), emitted envelopes are not "
                               "captured and state is read under the sender's mutex; the 'e2e' unit runs the real binaries but only join-together "
                               "scenarios (no leave/re-join), and reads the host's status lines.")
CHECKS["C04"]["level_note"] = ("SIGKILL keeps the page cache: this decides process death, not power loss. The child-process units are complete at hook "
                               "granularity only; the 'e2e' unit kills the real `thru join` at a random instant. Partial failures: in-flight damage of one chunk with a late writer (kind 'flip', both tiers) and, in the thorough tier, one data "
                               "stream that ends in mid-frame while the others go on. Trusted: the harness's wire decoder and the production LoadSidecar used for inspection.")
