# Configuration of the checks: which harness directory is overlaid onto which repository
# package, and per property which test binaries / test functions run in which tier.

# /verif/harness/<name>/X.go  ->  /repo/<target>/zz_verif_X.go (build overlay, /repo untouched)
HARNESS_TARGETS = {
    "kit": "internal/verifkit",          # shared library (no repo imports)
    "net": "internal/verifnet",          # runner, tree generator, wire decoder (imports transfer)
    "transfer": "internal/transfer",     # white-box tests, package transfer
    "xfer": "internal/verifxfer",        # black-box transfer tests (package verifxfer)
    "peers": "internal/peers",
    "app": "internal/app",
    "ice": "internal/ice",
    "session": "internal/session",
    "manifest": "pkg/manifest",
    "protocol": "pkg/protocol",
    "clienthttp": "internal/clienthttp",
    "scheduler": "internal/scheduler",
    "srv": "internal/verifsrv",          # drives the real thruserv binary
    "e2e": "internal/verife2e",          # drives the real thru binaries
}

BINARIES = {
    "thruserv": "./cmd/thruserv",
    "thru": "./cmd/thru",
}

T = "./internal/transfer"

HOOK_COMMITS = []

# properties whose check is not registered (yet); reason shown under not_applicable
PENDING = {}

CHECKS = {
    "C19": {
        "level": "exploration",
        "level_text": ("Generated-input search with a math/big reference: the small domain size 0..400 x chunk 1..48 is enumerated "
                       "completely, the rest (boundary lattice up to 10 TiB / 2^32-1, random pairs constructed to fit the 32-bit "
                       "chunk-count field) is sampled; the receiver's inline arithmetic is observed behaviourally with a scripted "
                       "sender on real and sparse files. Exploration is the right level: the domain is 2^75 pairs, arithmetic bugs "
                       "live on a lattice that the generator is built to hit."),
        "level_note": "Trusted: math/big reference arithmetic, the harness's scripted sender, sparse-file support of the work filesystem; sizes are sampled, not proven.",
        "technique": "property-based testing (rapid) + bounded-exhaustive enumeration against a math/big reference; behavioural receiver probes over in-memory transport",
        "rule": ("(size, chunk) pairs: exhaustive block size 0..400 x chunk 1..48 (thorough 0..2000 x 1..128), a boundary lattice "
                 "(k*c-1, k*c, k*c+1 for c up to 2^32-1, sizes around 2^31, 2^32, 10 TiB) and rapid draws constructed so the chunk "
                 "count fits 32 bits; behavioural receiver probes (chunk n-1 accepted at (n-1)*c, chunk n rejected, metadata count) "
                 "on real and sparse files. Non-trivial = size not a multiple of the chunk size or size/chunk at a power-of-two edge; "
                 "distinct = distinct (size, chunk[, resume]) pairs."),
        "assumptions": ["reference arithmetic is math/big", "receiver probes above 1 GiB need sparse-file support of the work filesystem"],
        "units": [
            {"name": "transfer", "pkg": T, "run": "^TestVerifC19",
             "quick": {"checks": 4000, "shards": 1, "timeout": 300},
             "thorough": {"checks": 150000, "shards": 16, "timeout": 1500}},
        ],
    },
    "C18": {
        "level": "exploration",
        "level_text": ("Round-trip and framing oracle over generated records: decode(encode(x)) == x and the decoder consumes exactly "
                       "the bytes written, for single records, sequences of 1-30 mixed records and the manifest header followed by "
                       "records, with every length/number field biased to its boundaries (path 1/1023/1024, 16-bit ids and error "
                       "texts 0/255/256/65535, bitmaps up to 1 MiB, 0 and 2^n-1 numerics); plus the converse direction "
                       "(decodable bytes re-encode to an equal value) and JSON envelopes. The input space is unbounded, so this is "
                       "sampled exploration with boundary-directed generators."),
        "level_note": "Trusted: reflect.DeepEqual as equality, rapid's generators; 32-bit lengths exercised to 1 MiB, not 4 GiB.",
        "technique": "property-based testing (rapid): round-trip + exact-consumption oracle over boundary-biased record generators and record sequences",
        "rule": ("rapid-generated control records (all 9 types) with boundary-biased fields, sequences of 1-30 records, manifest headers "
                 "with 0-200 items followed by records, random byte strings that decode (converse). Non-trivial = a field at a boundary "
                 "value or a sequence with >= 3 record types (records), empty/large manifest or trailing records (header), bytes that "
                 "decode (converse); distinct by shape fingerprint."),
        "assumptions": ["equality is reflect.DeepEqual with nil/empty slice normalised"],
        "units": [
            {"name": "transfer", "pkg": T, "run": "^TestVerifC18",
             "quick": {"checks": 3000, "shards": 1, "timeout": 600},
             "thorough": {"checks": 40000, "shards": 16, "timeout": 3000}},
        ],
    },
}
