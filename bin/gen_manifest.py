#!/usr/bin/env python3
"""Regenerates /verif/MANIFEST.json from bin/checks_conf.py (single source of truth)."""
import json, os, sys
VERIF = os.path.dirname(os.path.dirname(os.path.abspath(__file__)))
sys.path.insert(0, os.path.join(VERIF, "bin"))
from checks_conf import CHECKS, PENDING, HOOK_COMMITS  # noqa
ids = [json.loads(l)["id"] for l in open(os.path.join(VERIF, "properties.jsonl")) if l.strip()]
checks = []
na = []
for pid in ids:
    c = CHECKS.get(pid)
    if c is None or c.get("disabled"):
        na.append({"property_id": pid, "reason": PENDING.get(pid, "check not built yet")})
        continue
    e = {
        "property_id": pid,
        "quick_cmd": "bin/check %s quick" % pid,
        "thorough_cmd": "bin/check %s thorough" % pid,
        "evidence_file": "evidence/%s.json" % pid,
        "replay_cmd_template": "bin/check %s --replay {path}" % pid,
        "engine": "go-rapid-overlay",
        "level_claimed": {"category": c["level"], "text": c["level_text"], "design_ref": c.get("design_ref", "DESIGN.md section 2, " + pid)},
        "level_note": c["level_note"],
        "technique": c["technique"],
    }
    checks.append(e)
m = {
    "version": 1,
    "setup_cmd": "bin/check --setup",
    "hooks": {
        "guard": "verif",
        "enable": "go build/test -tags verif (bin/check adds the tag, an alternate go.mod with pgregory.net/rapid v1.3.0 and a build overlay that compiles /verif/harness into /repo packages)",
        "baseline_off_cmd": "cd /repo && go test -vet=off -count=1 -timeout 25m ./...",
        "source_commits": HOOK_COMMITS,
        "add_only": True,
    },
    "engines": [{
        "name": "go-rapid-overlay", "path": "bin/check",
        "serves_properties": [c["property_id"] for c in checks],
        "kind_free_text": "property-based testing (pgregory.net/rapid v1.3.0 generators and state machines), bounded-exhaustive enumeration, fault/crash-point enumeration and native go fuzz targets, compiled into the repository's packages via -overlay; python driver merges shard results into evidence",
    }],
    "checks": checks,
    "not_applicable": na,
    "notes": "Known genuine defects are listed in known_findings.txt (printed as KNOWN-FINDING, excluded by signature so search continues). Replays of violations are written to replays/<id>/.",
}
json.dump(m, open(os.path.join(VERIF, "MANIFEST.json"), "w"), indent=1)
print("MANIFEST.json: %d checks, %d not_applicable" % (len(checks), len(na)))
