package scheduler

import (
	"fmt"
	"sort"
	"testing"
	"time"

	"github.com/sheerbytes/sheerbytes/internal/verifkit"
	"pgregory.net/rapid"
)

// ---- C17 (file level): every file of the manifest is begun exactly once, for all orders in
// which file slots free up ----------------------------------------------------------------
//
// The sender keeps at most ParallelFiles files active; whenever a slot is free it asks the
// scheduler for the next file (Next), marks it started (Add with StartedAt, as
// SendManifestMultiStream does), reports progress (UpdateRemaining) and removes it when it is
// confirmed (Remove). This unit plays that protocol against the real HybridScheduler with
// generated configurations (slots, small-slot fraction, size classes relative to the file
// sizes), files of all three classes, a drawn order of completions and a drawn clock (aging
// re-classifies files that wait). Oracle:
//   - Next never hands out a file that has been begun already, or one it was never given;
//   - with no file active and files still waiting Next must hand one out - nothing else would
//     ever free a slot, the file would never be begun;
//   - when everything that was begun has completed, every file has been begun exactly once.

func TestVerifC17Sched(t *testing.T) {
	rec := verifkit.NewRecorder("C17", "sched")
	defer rec.Flush()
	rapid.Check(t, func(rt *rapid.T) {
		slots := rapid.IntRange(1, 8).Draw(rt, "parallel_files")
		frac := rapid.SampledFrom([]float64{0, 0.1, 0.25, 0.5, 0.75, 1}).Draw(rt, "small_slot_frac")
		unit := int64(rapid.SampledFrom([]int{1, 100, 4096}).Draw(rt, "unit"))
		cfg := PolicyConfig{ParallelFiles: slots, SmallSlotFrac: frac}
		switch rapid.IntRange(0, 2).Draw(rt, "size_classes") {
		case 1:
			cfg.SmallThreshold, cfg.MediumThreshold = 2*unit, 6*unit
		case 2:
			cfg.SmallThreshold = 3 * unit // medium threshold: default (everything above is "medium")
		}
		if rapid.Bool().Draw(rt, "short_aging") {
			cfg.AgingAfter = time.Second
		}
		s := NewHybridScheduler(cfg)
		nfiles := rapid.IntRange(1, 12).Draw(rt, "files")
		now := time.Unix(1_700_000_000, 0)
		type fstate struct {
			key    FileKey
			size   int64
			begun  int
			active bool
			done   bool
		}
		var files []*fstate
		classes := map[string]bool{}
		for i := 0; i < nfiles; i++ {
			size := int64(rapid.IntRange(0, 12).Draw(rt, fmt.Sprintf("size%d", i))) * unit
			f := &fstate{key: FileKey{StreamID: uint64(i + 1), RelPath: fmt.Sprintf("f%02d", i)}, size: size}
			files = append(files, f)
			s.Add(f.key, FileMeta{RelPath: f.key.RelPath, Size: size, Remaining: size, AddedAt: now})
			classes[s.classForRemaining(size)] = true
		}
		byKey := map[FileKey]*fstate{}
		for _, f := range files {
			byKey[f.key] = f
		}
		desc := fmt.Sprintf("parallel-files=%d small-slot-frac=%v small<=%d medium<=%d aging=%v files(size)=%v", slots, frac, cfg.SmallThreshold, cfg.MediumThreshold, cfg.AgingAfter, func() []int64 {
			var v []int64
			for _, f := range files {
				v = append(v, f.size)
			}
			return v
		}())
		activeN := func() int {
			n := 0
			for _, f := range files {
				if f.active {
					n++
				}
			}
			return n
		}
		waiting := func() []string {
			var w []string
			for _, f := range files {
				if f.begun == 0 {
					w = append(w, f.key.RelPath)
				}
			}
			sort.Strings(w)
			return w
		}
		fill := func() bool {
			for activeN() < slots {
				key, ok := s.Next(now)
				if !ok {
					if activeN() == 0 && len(waiting()) > 0 {
						rec.Fail(rt, "file-never-begun", fmt.Sprintf("no file is active, %v wait, and the scheduler hands out nothing: they are never begun | %s", waiting(), desc))
						return false
					}
					return true
				}
				f := byKey[key]
				if f == nil {
					rec.Fail(rt, "unknown-file-scheduled", fmt.Sprintf("Next returned %+v, which was never added | %s", key, desc))
					return false
				}
				f.begun++
				if f.begun > 1 {
					rec.Fail(rt, "file-begun-twice", fmt.Sprintf("%s was handed out a second time | %s", key.RelPath, desc))
					return false
				}
				f.active = true
				// as the sender does when it has written FileBegin
				s.Add(key, FileMeta{RelPath: key.RelPath, Size: f.size, Remaining: f.size, AddedAt: now, StartedAt: now, LastScheduledAt: now})
			}
			return true
		}
		if !fill() {
			return
		}
		steps := 0
		for activeN() > 0 && steps < 200 {
			steps++
			now = now.Add(time.Duration(rapid.SampledFrom([]int{0, 1, 50, 900, 1100, 6000}).Draw(rt, fmt.Sprintf("dt%d", steps))) * time.Millisecond)
			var act []*fstate
			for _, f := range files {
				if f.active {
					act = append(act, f)
				}
			}
			f := act[rapid.IntRange(0, len(act)-1).Draw(rt, fmt.Sprintf("who%d", steps))]
			if rapid.IntRange(0, 2).Draw(rt, fmt.Sprintf("progress%d", steps)) == 0 && f.size > 0 {
				s.UpdateRemaining(f.key, f.size/2)
				continue
			}
			f.active, f.done = false, true
			s.Remove(f.key)
			if !fill() {
				return
			}
		}
		rec.Eval()
		for _, f := range files {
			if f.begun != 1 {
				rec.Fail(rt, "file-not-begun-exactly-once", fmt.Sprintf("%s was begun %d times when all begun files had completed | %s", f.key.RelPath, f.begun, desc))
				return
			}
		}
		if len(classes) >= 2 && nfiles > slots {
			rec.NonTrivial(desc)
		}
		rec.Class(fmt.Sprintf("size-classes-present=%d", len(classes)))
		if rec.SampleWanted() {
			rec.Sample(map[string]any{"case": desc, "completions": steps})
		}
	})
}
