// Package verifsrv drives the real thruserv binary (built from the tree under test) with
// websocket and HTTP clients; it hosts the checks of C10, C14 and C16.
package verifsrv

import (
	"bufio"
	"encoding/json"
	"fmt"
	"io"
	"net"
	"net/http"
	"net/url"
	"os"
	"os/exec"
	"path/filepath"
	"strconv"
	"strings"
	"sync"
	"syscall"
	"time"

	"github.com/gorilla/websocket"
	"github.com/sheerbytes/sheerbytes/pkg/protocol"
)

type server struct {
	exited chan struct{} // closed when the process has ended (a zombie still answers signal 0)
	cmd    *exec.Cmd
	port   int
	base   string
	logMu  sync.Mutex
	logs   []string
}

var portSeq int

// freePort hands out ports from a range private to this shard (parallel shards must not race
// for the same "free" port: a server that lost the race would exit while the health probe
// happily talks to the other shard's server).
func freePort() int {
	sh, _ := strconv.Atoi(os.Getenv("VERIF_SHARD"))
	for i := 0; i < 1500; i++ {
		portSeq++
		// spread by process id as well: several runs of this check may be under way at once
		// (another tier, a sweep against a scratch copy) with the same shard numbers
		port := 21000 + (os.Getpid()*131+sh*977+portSeq*17)%24000
		if !claimPort(port) {
			continue
		}
		l, err := net.Listen("tcp", fmt.Sprintf(":%d", port))
		if err != nil {
			releasePort(port)
			continue
		}
		l.Close()
		return port
	}
	return 0
}

// claimPort / releasePort: between "the port is free" and "our server listens on it" another
// harness process (another check, another shard) may start its server on the same port; the
// health probe would then be answered by that server, which disappears when its owner is
// done. A lock file per port, holding the claimant's process id, keeps the harness processes
// of this machine apart (a file whose process is gone is stale and taken over).
func portLockPath(port int) string {
	return filepath.Join(os.TempDir(), "verif-ports", fmt.Sprint(port))
}

func claimPort(port int) bool {
	p := portLockPath(port)
	os.MkdirAll(filepath.Dir(p), 0777)
	for attempt := 0; attempt < 2; attempt++ {
		f, err := os.OpenFile(p, os.O_CREATE|os.O_EXCL|os.O_WRONLY, 0644)
		if err == nil {
			fmt.Fprint(f, os.Getpid())
			f.Close()
			return true
		}
		data, rerr := os.ReadFile(p)
		if rerr != nil {
			continue
		}
		pid, _ := strconv.Atoi(strings.TrimSpace(string(data)))
		if pid == os.Getpid() {
			return false // one of our own servers
		}
		if pid > 0 && syscall.Kill(pid, 0) == nil {
			return false
		}
		os.Remove(p) // stale
	}
	return false
}

func releasePort(port int) { os.Remove(portLockPath(port)) }

// startServer launches thruserv with the given flags on a free port and waits for /health.
func startServer(args ...string) (*server, error) {
	bin := filepath.Join(os.Getenv("VERIF_BIN"), "thruserv")
	if _, err := os.Stat(bin); err != nil {
		return nil, fmt.Errorf("thruserv binary not built: %v", err)
	}
	for attempt := 0; attempt < 5; attempt++ {
		port := freePort()
		s := &server{port: port, base: fmt.Sprintf("http://127.0.0.1:%d", port)}
		s.cmd = exec.Command(bin, append([]string{"--port", fmt.Sprint(port)}, args...)...)
		s.cmd.SysProcAttr = &syscall.SysProcAttr{Pdeathsig: syscall.SIGKILL}
		stdout, _ := s.cmd.StdoutPipe()
		s.cmd.Stderr = s.cmd.Stdout
		if err := s.cmd.Start(); err != nil {
			return nil, err
		}
		s.exited = make(chan struct{})
		go func(s *server) { s.cmd.Wait(); close(s.exited) }(s)
		go func() {
			sc := bufio.NewScanner(stdout)
			sc.Buffer(make([]byte, 1<<20), 1<<20)
			for sc.Scan() {
				s.logMu.Lock()
				if len(s.logs) < 5000 {
					s.logs = append(s.logs, sc.Text())
				}
				s.logMu.Unlock()
			}
		}()
		ok := false
		for i := 0; i < 200; i++ {
			resp, err := http.Get(s.base + "/health")
			if err == nil {
				resp.Body.Close()
				if resp.StatusCode == 200 {
					ok = true
					break
				}
			}
			time.Sleep(10 * time.Millisecond)
		}
		if ok {
			// a server that lost the race for the port needs a moment to give up; the health
			// probe may have been answered by somebody else's server on that port
			time.Sleep(60 * time.Millisecond)
			if s.alive() {
				return s, nil
			}
		}
		s.stop()
	}
	return nil, fmt.Errorf("server did not become healthy")
}

func (s *server) stop() {
	if s.cmd != nil && s.cmd.Process != nil {
		s.cmd.Process.Kill()
		if s.exited != nil {
			<-s.exited
		}
	}
	if s.port != 0 {
		releasePort(s.port)
	}
}

func (s *server) alive() bool {
	select {
	case <-s.exited:
		return false
	default:
		return true
	}
}

func (s *server) logText() string {
	s.logMu.Lock()
	defer s.logMu.Unlock()
	l := s.logs
	if len(l) > 40 {
		l = l[len(l)-40:]
	}
	return strings.Join(l, "\n")
}

type sessionInfo struct {
	ID, Code  string
	ExpiresAt string
	Status    int
	Created   time.Time
}

// createSession posts /session directly (raw HTTP, independent of the client library).
func (s *server) createSession() sessionInfo {
	t0 := time.Now()
	resp, err := http.Post(s.base+"/session", "application/json", nil)
	if err != nil {
		return sessionInfo{Status: -1}
	}
	defer resp.Body.Close()
	body, _ := io.ReadAll(resp.Body)
	var m map[string]any
	json.Unmarshal(body, &m)
	si := sessionInfo{Status: resp.StatusCode, Created: t0}
	if v, ok := m["session_id"].(string); ok {
		si.ID = v
	}
	if v, ok := m["join_code"].(string); ok {
		si.Code = v
	}
	if v, ok := m["expires_at"].(string); ok {
		si.ExpiresAt = v
	}
	return si
}

type received struct {
	Env protocol.Envelope
	Raw string
	At  time.Time
}

type client struct {
	conn     *websocket.Conn
	peerID   string
	role     string
	mu       sync.Mutex
	inbox    []received
	closed   bool
	closedAt time.Time
	wmu      sync.Mutex
}

// dial connects a websocket client; status is the HTTP status when the upgrade was refused.
func (s *server) dial(code, peerID, role string) (*client, int, error) {
	u := fmt.Sprintf("ws://127.0.0.1:%d/ws?join_code=%s&peer_id=%s&role=%s", s.port, url.QueryEscape(code), url.QueryEscape(peerID), url.QueryEscape(role))
	return s.dialURL(u, peerID, role)
}

func (s *server) dialURL(u, peerID, role string) (*client, int, error) {
	d := websocket.Dialer{HandshakeTimeout: 5 * time.Second}
	conn, resp, err := d.Dial(u, nil)
	if err != nil {
		st := 0
		if resp != nil {
			st = resp.StatusCode
		}
		return nil, st, err
	}
	c := &client{conn: conn, peerID: peerID, role: role}
	go func() {
		for {
			_, msg, err := conn.ReadMessage()
			if err != nil {
				c.mu.Lock()
				c.closed = true
				c.closedAt = time.Now()
				c.mu.Unlock()
				return
			}
			var env protocol.Envelope
			json.Unmarshal(msg, &env)
			c.mu.Lock()
			c.inbox = append(c.inbox, received{Env: env, Raw: string(msg), At: time.Now()})
			c.mu.Unlock()
		}
	}()
	return c, 101, nil
}

func (c *client) sendRaw(mt int, data []byte) error {
	c.wmu.Lock()
	defer c.wmu.Unlock()
	return c.conn.WriteMessage(mt, data)
}

func (c *client) sendEnv(env protocol.Envelope) error {
	b, _ := json.Marshal(env)
	return c.sendRaw(websocket.TextMessage, b)
}

func (c *client) close() {
	c.conn.Close()
}

func (c *client) isClosed() bool {
	c.mu.Lock()
	defer c.mu.Unlock()
	return c.closed
}

func (c *client) snapshot() []received {
	c.mu.Lock()
	defer c.mu.Unlock()
	return append([]received(nil), c.inbox...)
}

// waitFor polls until pred holds on the inbox or the timeout expires.
func (c *client) waitFor(timeout time.Duration, pred func([]received) bool) bool {
	deadline := time.Now().Add(timeout)
	for {
		if pred(c.snapshot()) {
			return true
		}
		if time.Now().After(deadline) {
			return false
		}
		time.Sleep(300 * time.Microsecond)
	}
}

func hasType(t string) func([]received) bool {
	return func(in []received) bool {
		for _, r := range in {
			if r.Env.Type == t {
				return true
			}
		}
		return false
	}
}

// tokenOf extracts the test token of a peer-authored test message.
func tokenOf(r received) string {
	if r.Env.Type != "x-verif" {
		return ""
	}
	var p struct {
		Tok string `json:"tok"`
	}
	json.Unmarshal(r.Env.Payload, &p)
	return p.Tok
}
