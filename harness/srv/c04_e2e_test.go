package verifsrv

import (
	"fmt"
	"io"
	"os"
	"os/exec"
	"path/filepath"
	"strings"
	"syscall"
	"testing"
	"time"

	"github.com/sheerbytes/sheerbytes/internal/verifkit"
	"github.com/sheerbytes/sheerbytes/internal/verifnet"
	"pgregory.net/rapid"
)

// ---- C04 (real binaries): `thru join` is killed in mid-transfer and run again -------------------
//
// thruserv and `thru host` run as processes; a first `thru join` is killed with SIGKILL a
// drawn number of milliseconds after it reported its transfer connection, a second (and, if
// that one is killed too, a third) `thru join` fetches the same tree into the same output
// directory and answers the tool's "resume existing data?" prompt with yes. Oracle: the last
// run exits 0 within 90 s and the output directory holds exactly the hosted tree.

// runJoinKill starts `thru join` and kills it `after` the line announcing the transfer
// connection appeared; it reports whether the process was still running when killed.
func runJoinKill(bin, serverURL, code, out string, after time.Duration) (killedRunning bool, log string) {
	cmd := exec.Command(bin, "join", code, "--out", out, "--server-url", serverURL, "--verbose")
	cmd.SysProcAttr = &syscall.SysProcAttr{Pdeathsig: syscall.SIGKILL}
	var lb lockedBuf
	cmd.Stdout, cmd.Stderr = &lb, &lb
	stdin, _ := cmd.StdinPipe()
	if err := cmd.Start(); err != nil {
		return false, err.Error()
	}
	go answerPrompts(stdin)
	done := make(chan struct{})
	go func() { cmd.Wait(); close(done) }()
	deadline := time.After(40 * time.Second)
	for {
		select {
		case <-done:
			return false, lb.String()
		case <-deadline:
			cmd.Process.Kill()
			<-done
			return true, lb.String()
		case <-time.After(2 * time.Millisecond):
		}
		if strings.Contains(lb.String(), "QUIC transfer connection established") {
			break
		}
	}
	select {
	case <-done:
		return false, lb.String()
	case <-time.After(after):
	}
	cmd.Process.Signal(syscall.SIGKILL)
	<-done
	return true, lb.String()
}

// answersAtOnce: both answers ("accept the transfer", "resume existing data") are on the
// join's standard input from the start, as in scripted use (`printf 'y\ny\n' | thru join ...`);
// otherwise the second answer follows 300 ms after the first.
var answersAtOnce bool

func answerPrompts(stdin io.Writer) {
	if answersAtOnce {
		io.WriteString(stdin, "y\ny\n")
		return
	}
	fmt.Fprintln(stdin, "y") // accept the offer
	time.Sleep(300 * time.Millisecond)
	fmt.Fprintln(stdin, "y")
}

func TestVerifC04E2E(t *testing.T) {
	rec := verifkit.NewRecorder("C04", "e2e")
	defer rec.Flush()
	thru := filepath.Join(os.Getenv("VERIF_BIN"), "thru")
	if _, err := os.Stat(thru); err != nil {
		t.Skip("thru binary not built")
	}
	rapid.Check(t, func(rt *rapid.T) {
		// one large file (so that a kill lands inside its transfer) plus a few small entries
		big := rapid.SampledFrom([]int{6 << 20, 24 << 20, 48 << 20}).Draw(rt, "big_file_bytes")
		tree := verifnet.GenTree(rt, 4096, verifnet.GenOpts{MaxFiles: 2, MinFiles: 0, MaxChunks: 3})
		tree.Nodes = append(tree.Nodes, verifnet.Node{Rel: "big.bin", Size: big + rapid.IntRange(0, 5000).Draw(rt, "odd"), Seed: rapid.Uint64().Draw(rt, "seed")})
		conns := rapid.SampledFrom([]int{0, 1, 2}).Draw(rt, "total_connections")
		kills := rapid.IntRange(1, 2).Draw(rt, "kills")
		answersAtOnce = rapid.Bool().Draw(rt, "answers_on_stdin_from_the_start")
		defer func() { answersAtOnce = false }()
		if answersAtOnce {
			rec.Class("both-answers-piped-at-once")
		}
		dir := verifkit.ScratchDir(t, "c04e2e")
		defer os.RemoveAll(dir)
		root, err := tree.Materialize(filepath.Join(dir, "src"))
		if err != nil {
			rec.Class("not-run-materialize")
			return
		}
		srv, err := startServer("--ws-connects-per-min", "0", "--session-creates-per-min", "0")
		if err != nil {
			rec.Class("not-run-server")
			return
		}
		defer srv.stop()
		var extra []string
		if conns > 0 {
			extra = append(extra, "--total-connections", fmt.Sprint(conns))
		}
		host, err := startHost(thru, srv.base, []string{root}, extra...)
		if err != nil {
			rec.Class("not-run-host")
			rec.Note("host not started: %v", err)
			return
		}
		defer host.stop()
		out := filepath.Join(dir, "out")
		os.MkdirAll(out, 0755)
		midKills := 0
		var killNotes []string
		for k := 0; k < kills; k++ {
			after := time.Duration(rapid.IntRange(0, 600).Draw(rt, fmt.Sprintf("kill_after_ms%d", k))) * time.Millisecond
			running, _ := runJoinKill(thru, srv.base, host.code, out, after)
			partial := false
			filepath.Walk(out, func(p string, fi os.FileInfo, err error) error {
				if err == nil && strings.HasSuffix(p, ".sbxmap") {
					partial = true
				}
				return nil
			})
			if running && partial {
				midKills++
			}
			killNotes = append(killNotes, fmt.Sprintf("kill %d: %s after the connection, process running=%v, resume metadata on disk=%v", k+1, after, running, partial))
			time.Sleep(200 * time.Millisecond)
		}
		t0 := time.Now()
		status, jlog := runJoin(thru, srv.base, host.code, out, 90*time.Second)
		rec.Eval()
		desc := fmt.Sprintf("tree %s, total-connections=%d, %v, final run %.1fs", tree.Describe(), conns, killNotes, time.Since(t0).Seconds())
		if midKills > 0 {
			rec.Class("killed-in-mid-transfer")
		}
		if status != 0 {
			if joinNeverStarted(jlog) {
				rec.Class("not-run-join-never-reached-the-session")
				rec.Note("final join printed nothing but its banner (status %d): %s", status, desc)
				return
			}
			sig := "e2e:final-resume-failed"
			if status == -1 {
				sig = "e2e:final-resume-did-not-finish"
			}
			rec.Fail(rt, sig, fmt.Sprintf("the final `thru join` ended with status %d | %s\n--- join log (tail) ---\n%s\n--- host log (errors) ---\n%s", status, desc, tailOf(jlog, 1500), grepErrors(host.log.String())))
			return
		}
		got, derr := verifnet.Digest(out)
		if derr != nil {
			rec.Fail(rt, "e2e:output-unreadable", derr.Error()+" | "+desc)
			return
		}
		if diff := verifnet.DiffDigests(tree.Expected(tree.Base), stripResume(got)); diff != "" {
			rec.Fail(rt, "e2e:final-tree-differs", diff+" | "+desc)
			return
		}
		if midKills > 0 {
			rec.NonTrivial(fmt.Sprintf("%s|%d|%v", tree.Describe(), conns, killNotes))
		}
		if rec.SampleWanted() {
			rec.Sample(map[string]any{"case": desc})
		}
	})
}
