package verifsrv

import (
	"encoding/json"
	"fmt"
	"sort"
	"strings"
	"testing"
	"time"

	"github.com/gorilla/websocket"
	"github.com/sheerbytes/sheerbytes/internal/verifkit"
	"github.com/sheerbytes/sheerbytes/pkg/protocol"
	"pgregory.net/rapid"
)

// ---- C10: routing model of the signaling server ------------------------------------------

type c10Action struct {
	Kind    string // create connect disconnect send-to send-all spoof malformed
	Session int
	Peer    string
	Role    string
	Conn    int    // acting connection (index into the list of open connections, modulo)
	To      string // addressee for send-to
	Variant int
}

func (a c10Action) String() string {
	switch a.Kind {
	case "create":
		return "create-session"
	case "connect":
		return fmt.Sprintf("connect(s%d,%s,%s)", a.Session, a.Peer, a.Role)
	case "disconnect":
		return fmt.Sprintf("disconnect(c%d)", a.Conn)
	case "send-to":
		return fmt.Sprintf("send(c%d->%s)", a.Conn, a.To)
	case "send-all":
		return fmt.Sprintf("broadcast(c%d)", a.Conn)
	case "spoof":
		return fmt.Sprintf("spoof(c%d->%s,v%d)", a.Conn, a.To, a.Variant)
	default:
		return fmt.Sprintf("malformed(c%d,v%d)", a.Conn, a.Variant)
	}
}

var c10Peers = []string{"p1", "p2", "p3", "p 4", "a@b:c/d?e#f%g&h=i+j"}

type c10Conn struct {
	idx      int
	session  int
	peer     string
	cl       *client
	alive    bool
	seq      int
	expected map[string]bool // tokens this connection must receive
}

type c10Msg struct {
	tok      string
	author   *c10Conn
	must     map[*c10Conn]bool
	may      map[*c10Conn]bool // allowed but not required (replaced connections)
	errBack  bool              // author must get peer_not_found
	fromWant string
	order    int
}

func TestVerifC10Routing(t *testing.T) {
	rec := verifkit.NewRecorder("C10", "routing")
	defer rec.Flush()
	srv, err := startServer("--ws-msgs-per-sec", "0", "--ws-connects-per-min", "0", "--session-creates-per-min", "0", "--max-sessions", "0", "--max-ws-connections", "0", "--max-receivers-per-sender", "0")
	if err != nil {
		t.Fatalf("server: %v", err)
	}
	defer srv.stop()
	rapid.Check(t, func(rt *rapid.T) {
		n := rapid.IntRange(4, 25).Draw(rt, "actions")
		var actions []c10Action
		for i := 0; i < n; i++ {
			k := rapid.SampledFrom([]string{"create", "connect", "connect", "connect", "disconnect", "send-to", "send-to", "send-all", "send-all", "spoof", "malformed"}).Draw(rt, fmt.Sprintf("k%d", i))
			actions = append(actions, c10Action{Kind: k, Session: rapid.IntRange(0, 2).Draw(rt, fmt.Sprintf("s%d", i)),
				Peer: rapid.SampledFrom(c10Peers).Draw(rt, fmt.Sprintf("p%d", i)), Role: rapid.SampledFrom([]string{"receiver", "receiver", "sender"}).Draw(rt, fmt.Sprintf("r%d", i)),
				Conn: rapid.IntRange(0, 7).Draw(rt, fmt.Sprintf("c%d", i)), To: rapid.SampledFrom(append([]string{"nobody", "server"}, c10Peers...)).Draw(rt, fmt.Sprintf("t%d", i)),
				Variant: rapid.IntRange(0, 5).Draw(rt, fmt.Sprintf("v%d", i))})
		}
		sig, detail, stats := c10Run(srv, actions)
		rec.Eval()
		if !srv.alive() {
			rec.Fail(rt, "server-died", "thruserv exited during the history: "+srv.logText())
			return
		}
		if sig != "" {
			var parts []string
			for _, a := range actions {
				parts = append(parts, a.String())
			}
			rec.Fail(rt, sig, detail+" | history: "+strings.Join(parts, " "))
			return
		}
		for k, v := range stats {
			rec.ClassN(k, int64(v))
		}
		if stats["sessions-alive-simultaneously>=2"] > 0 && stats["addressed"] > 0 && stats["unaddressed"] > 0 && (stats["spoofed"] > 0 || stats["duplicate-id-connect"] > 0 || stats["unknown-addressee"] > 0) {
			var parts []string
			for _, a := range actions {
				parts = append(parts, a.String())
			}
			rec.NonTrivial(strings.Join(parts, " "))
			if rec.SampleWanted() {
				rec.Sample(strings.Join(parts, " "))
			}
		}
	})
}

// c10Fence makes sure the server has processed everything the connection sent so far: a
// message to a unique unknown addressee is answered with peer_not_found to the author, and a
// connection's messages are handled in order.
func c10Fence(c *c10Conn, n int) bool {
	id := fmt.Sprintf("__fence_%d_%d", c.idx, n)
	env := protocol.Envelope{V: 1, Type: "x-fence", MsgID: id, To: id}
	if c.cl.sendEnv(env) != nil {
		return false
	}
	return c.cl.waitFor(3*time.Second, func(in []received) bool {
		for i := len(in) - 1; i >= 0; i-- {
			if in[i].Env.Type == protocol.TypeError && strings.Contains(in[i].Raw, id) {
				return true
			}
		}
		return false
	})
}

// c10Run executes a history sequentially with barriers and checks it against the routing model.
func c10Run(srv *server, actions []c10Action) (sig, detail string, stats map[string]int) {
	stats = map[string]int{}
	type sess struct{ info sessionInfo }
	var sessions []sess
	var conns []*c10Conn                        // all connections ever made
	registered := map[int]map[string]*c10Conn{} // session -> peer id -> connection that currently owns the id
	var msgs []*c10Msg
	defer func() {
		for _, c := range conns {
			if c.cl != nil {
				c.cl.close()
			}
		}
	}()
	open := func() []*c10Conn {
		var o []*c10Conn
		for _, c := range conns {
			if c.alive {
				o = append(o, c)
			}
		}
		return o
	}
	order := 0
	for ai, a := range actions {
		switch a.Kind {
		case "create":
			if len(sessions) >= 3 {
				continue
			}
			si := srv.createSession()
			if si.Status != 201 {
				return "create-session-failed", fmt.Sprintf("POST /session returned %d with limits disabled", si.Status), stats
			}
			sessions = append(sessions, sess{si})
			registered[len(sessions)-1] = map[string]*c10Conn{}
		case "connect":
			if len(sessions) == 0 || len(open()) >= 8 {
				continue
			}
			s := a.Session % len(sessions)
			cl, st, err := srv.dial(sessions[s].info.Code, a.Peer, a.Role)
			if err != nil {
				if st == 404 {
					continue // the session's host left earlier: the code is gone (C14 owns that)
				}
				return "connect-failed", fmt.Sprintf("action %d %s: status %d err %v", ai, a, st, err), stats
			}
			c := &c10Conn{idx: len(conns), session: s, peer: a.Peer, cl: cl, alive: true, expected: map[string]bool{}}
			conns = append(conns, c)
			if !cl.waitFor(3*time.Second, hasType(protocol.TypePeerList)) {
				return "no-peer-list", fmt.Sprintf("connection %d got no peer_list", c.idx), stats
			}
			if old := registered[s][a.Peer]; old != nil && old.alive {
				stats["duplicate-id-connect"]++
			}
			registered[s][a.Peer] = c
			live := map[int]bool{}
			for _, o := range open() {
				live[o.session] = true
			}
			if len(live) >= 2 {
				stats["sessions-alive-simultaneously>=2"]++
			}
			// barrier: everybody registered in the session sees the peer_joined
			time.Sleep(2 * time.Millisecond)
		case "disconnect":
			o := open()
			if len(o) == 0 {
				continue
			}
			c := o[a.Conn%len(o)]
			c.cl.close()
			c.alive = false
			if registered[c.session][c.peer] == c {
				delete(registered[c.session], c.peer)
			}
			time.Sleep(5 * time.Millisecond) // let the server run the handler's deferred removal
		case "send-to", "send-all", "spoof", "malformed":
			o := open()
			if len(o) == 0 {
				continue
			}
			c := o[a.Conn%len(o)]
			c.seq++
			order++
			tok := fmt.Sprintf("c%d-%d", c.idx, c.seq)
			payload, _ := json.Marshal(map[string]string{"tok": tok})
			env := protocol.Envelope{V: 1, Type: "x-verif", MsgID: fmt.Sprintf("m%d-%d", c.idx, c.seq), Payload: payload}
			m := &c10Msg{tok: tok, author: c, must: map[*c10Conn]bool{}, may: map[*c10Conn]bool{}, fromWant: c.peer, order: order}
			addressed := a.Kind == "send-to" || (a.Kind == "spoof" && a.Variant%2 == 0)
			if a.Kind == "spoof" {
				stats["spoofed"]++
				env.From = "server"
				if a.Variant%3 == 0 {
					env.From = c10Peers[(a.Variant+1)%len(c10Peers)]
				}
				if len(sessions) > 1 {
					env.SessionID = sessions[(c.session+1)%len(sessions)].info.ID
				}
			}
			if a.Kind == "malformed" {
				stats["malformed"]++
				var err error
				switch a.Variant % 5 {
				case 0:
					err = c.cl.sendRaw(websocket.TextMessage, []byte(`{"v":1,"type":"x-verif","msg_id":"`+env.MsgID+`","payload":{"tok":"`+tok+`"`)) // cut JSON
				case 1:
					env.V = 2
					err = c.cl.sendEnv(env)
				case 2:
					env.MsgID = ""
					err = c.cl.sendEnv(env)
				case 3:
					b, _ := json.Marshal(env)
					err = c.cl.sendRaw(websocket.BinaryMessage, b)
				default:
					env.Type = ""
					err = c.cl.sendEnv(env)
				}
				if err != nil {
					return "send-failed", fmt.Sprint(err), stats
				}
				msgs = append(msgs, m) // must reach nobody
				if !c10Fence(c, order) {
					return "fence-lost", fmt.Sprintf("connection %d got no answer to its fence after a malformed message (%s)", c.idx, a), stats
				}
				continue
			}
			if addressed {
				env.To = a.To
				stats["addressed"]++
				if tgt := registered[c.session][a.To]; tgt != nil && tgt.alive {
					m.must[tgt] = true
				} else {
					m.errBack = true
					stats["unknown-addressee"]++
				}
			} else {
				stats["unaddressed"]++
				for _, tgt := range registered[c.session] {
					if tgt.alive && tgt.peer != c.peer {
						m.must[tgt] = true
					}
				}
				// a connection that owns the author's own peer id (the author was replaced) is excluded
				// by the server; the statement speaks of "every other peer", so it is neither required nor forbidden
				if tgt := registered[c.session][c.peer]; tgt != nil && tgt != c {
					m.may[tgt] = true
				}
			}
			if err := c.cl.sendEnv(env); err != nil {
				return "send-failed", fmt.Sprint(err), stats
			}
			msgs = append(msgs, m)
			if !c10Fence(c, order) {
				return "fence-lost", fmt.Sprintf("connection %d got no answer to its fence after %s", c.idx, a), stats
			}
			// barrier: wait for the modelled deliveries (keeps the per-recipient backlog far below the hub's buffer)
			for tgt := range m.must {
				ok := tgt.cl.waitFor(2*time.Second, func(in []received) bool {
					for _, r := range in {
						if tokenOf(r) == tok {
							return true
						}
					}
					return false
				})
				if !ok {
					return "message-lost", fmt.Sprintf("token %s (%s by connection %d, peer %q, session %d) never reached connection %d (peer %q) which was connected and reading", tok, a, c.idx, c.peer, c.session, tgt.idx, tgt.peer), stats
				}
			}
			if m.errBack {
				ok := c.cl.waitFor(2*time.Second, func(in []received) bool {
					n := 0
					for _, r := range in {
						if r.Env.Type == protocol.TypeError {
							var pe protocol.Error
							json.Unmarshal(r.Env.Payload, &pe)
							if pe.Code == "peer_not_found" && strings.Contains(pe.Message, a.To) {
								n++
							}
						}
					}
					return n > 0
				})
				if !ok {
					return "no-peer-not-found", fmt.Sprintf("addressee %q is unknown in session %d but the author (connection %d) got no peer_not_found", a.To, c.session, c.idx), stats
				}
			}
		}
	}
	// final quiescence, then compare every client's log with the model
	time.Sleep(150 * time.Millisecond)
	byTok := map[string]*c10Msg{}
	for _, m := range msgs {
		byTok[m.tok] = m
	}
	for _, c := range conns {
		seen := map[string]int{}
		lastOrder := map[int]int{}
		for _, r := range c.cl.snapshot() {
			tok := tokenOf(r)
			if tok == "" {
				if r.Env.Type == protocol.TypeError && strings.Contains(r.Raw, "peer_not_found") && !strings.Contains(r.Raw, "__fence_") {
					// must be for a message this connection authored
					found := false
					for _, m := range msgs {
						if m.author == c && m.errBack {
							found = true
						}
					}
					if !found {
						return "peer-not-found-to-wrong-peer", fmt.Sprintf("connection %d received a peer_not_found it did not cause: %s", c.idx, r.Raw), stats
					}
				}
				continue
			}
			m := byTok[tok]
			if m == nil {
				return "unknown-token", fmt.Sprintf("connection %d received token %q nobody sent", c.idx, tok), stats
			}
			seen[tok]++
			if seen[tok] > 1 {
				return "duplicate-delivery", fmt.Sprintf("connection %d received token %s twice", c.idx, tok), stats
			}
			if m.author.session != c.session {
				return "cross-session-delivery", fmt.Sprintf("token %s authored in session %d (connection %d) was delivered to connection %d of session %d", tok, m.author.session, m.author.idx, c.idx, c.session), stats
			}
			if !m.must[c] && !m.may[c] {
				return "delivered-to-wrong-peer", fmt.Sprintf("token %s (author connection %d peer %q) was delivered to connection %d (peer %q) which the model does not name as recipient", tok, m.author.idx, m.author.peer, c.idx, c.peer), stats
			}
			if r.Env.From != m.fromWant {
				return "wrong-from", fmt.Sprintf("token %s arrived with from=%q, the author connected as %q", tok, r.Env.From, m.fromWant), stats
			}
			if prev, ok := lastOrder[m.author.idx]; ok && prev > m.order {
				return "reordered", fmt.Sprintf("connection %d received token %s from connection %d after a later one", c.idx, tok, m.author.idx), stats
			}
			lastOrder[m.author.idx] = m.order
		}
	}
	var kinds []string
	for k := range stats {
		kinds = append(kinds, k)
	}
	sort.Strings(kinds)
	return "", "", stats
}
