package verifsrv

import (
	"encoding/json"
	"fmt"
	"strings"
	"testing"
	"time"

	"github.com/gorilla/websocket"
	"github.com/sheerbytes/sheerbytes/internal/verifkit"
	"github.com/sheerbytes/sheerbytes/pkg/protocol"
	"pgregory.net/rapid"
)

// ---- C10: no duplication and no reordering, also when the recipient falls behind ------------
//
// The recipient stops reading for a while; the author sends far more than the server and the
// sockets can hold for it (several megabytes, hundreds of messages), so the per-connection
// queue of the server overflows. Then the recipient reads on. What was dropped while it did
// not read is not judged ("not lost while the recipient keeps reading"); what arrives must
// arrive once and in the order it was sent, and a bystander of the session sees none of it.

func TestVerifC10Flood(t *testing.T) {
	rec := verifkit.NewRecorder("C10", "flood")
	defer rec.Flush()
	rapid.Check(t, func(rt *rapid.T) {
		n := rapid.IntRange(600, 1400).Draw(rt, "messages")
		size := rapid.SampledFrom([]int{16 << 10, 24 << 10, 32 << 10}).Draw(rt, "payload_bytes")
		stall := time.Duration(rapid.SampledFrom([]int{300, 700}).Draw(rt, "recipient_pause_ms")) * time.Millisecond
		srv, err := startServer("--ws-msgs-per-sec", "0", "--ws-connects-per-min", "0", "--session-creates-per-min", "0", "--max-message-bytes", "0")
		if err != nil {
			rec.Class("not-run-server")
			return
		}
		defer srv.stop()
		si := srv.createSession()
		author, _, err := srv.dial(si.Code, "a", "sender")
		if err != nil {
			rec.Class("not-run-connect")
			return
		}
		defer author.close()
		bystander, _, err := srv.dial(si.Code, "c", "receiver")
		if err != nil {
			rec.Class("not-run-connect")
			return
		}
		defer bystander.close()
		u := fmt.Sprintf("ws://127.0.0.1:%d/ws?join_code=%s&peer_id=b&role=receiver", srv.port, si.Code)
		d := websocket.Dialer{HandshakeTimeout: 5 * time.Second}
		slow, _, err := d.Dial(u, nil)
		if err != nil {
			rec.Class("not-run-connect")
			return
		}
		defer slow.Close()
		time.Sleep(150 * time.Millisecond) // the recipient is registered; it does not read from now on
		pad := strings.Repeat("x", size)
		sent := 0
		for i := 0; i < n; i++ {
			payload, _ := json.Marshal(map[string]string{"tok": fmt.Sprintf("f%06d", i), "pad": pad})
			if author.sendEnv(protocol.Envelope{V: 1, Type: "x-verif", MsgID: fmt.Sprint(i), To: "b", Payload: payload}) != nil {
				break
			}
			sent++
		}
		time.Sleep(stall)
		// the recipient reads on until nothing has arrived for 600 ms
		var got []int
		for {
			slow.SetReadDeadline(time.Now().Add(600 * time.Millisecond))
			_, msg, err := slow.ReadMessage()
			if err != nil {
				break
			}
			var env protocol.Envelope
			if json.Unmarshal(msg, &env) != nil || env.Type != "x-verif" {
				continue
			}
			var p map[string]string
			json.Unmarshal(env.Payload, &p)
			var k int
			if _, err := fmt.Sscanf(p["tok"], "f%d", &k); err == nil {
				got = append(got, k)
			}
		}
		rec.Eval()
		desc := fmt.Sprintf("%d messages of %d bytes sent to a recipient that paused reading for %s; %d arrived", sent, size, stall, len(got))
		seen := map[int]bool{}
		last := -1
		for _, k := range got {
			if seen[k] {
				rec.Fail(rt, "duplicate-delivery", fmt.Sprintf("message %d arrived twice | %s", k, desc))
				return
			}
			seen[k] = true
			if k < last {
				rec.Fail(rt, "reordered", fmt.Sprintf("message %d arrived after message %d | %s", k, last, desc))
				return
			}
			last = k
		}
		for _, r := range bystander.snapshot() {
			if strings.HasPrefix(tokenOf(r), "f") {
				rec.Fail(rt, "delivered-to-wrong-peer", fmt.Sprintf("the bystander received %s, addressed to b | %s", tokenOf(r), desc))
				return
			}
		}
		if len(got) < sent {
			rec.Class("queue-overflowed-some-dropped")
			rec.NonTrivial(fmt.Sprintf("%d/%d/%s", n, size, stall))
		} else {
			rec.Class("everything-arrived")
		}
		if rec.SampleWanted() {
			rec.Sample(map[string]any{"case": desc})
		}
	})
}
