package verifsrv

import (
	"encoding/json"
	"fmt"
	"net/http"
	"strings"
	"sync"
	"testing"
	"time"

	"github.com/gorilla/websocket"
	"github.com/sheerbytes/sheerbytes/internal/verifkit"
	"github.com/sheerbytes/sheerbytes/pkg/protocol"
	"pgregory.net/rapid"
)

// ---- C14 (server): limits under concurrent bursts, 0 = unlimited, code lifetime --------

var c14NoRate = []string{"--ws-msgs-per-sec", "0", "--ws-connects-per-min", "0", "--session-creates-per-min", "0"}

func c14Start(args ...string) (*server, error) { return startServer(args...) }

// burst runs n functions concurrently (released together).
func burst(n int, fn func(i int)) {
	var wg sync.WaitGroup
	start := make(chan struct{})
	for i := 0; i < n; i++ {
		wg.Add(1)
		go func(i int) {
			defer wg.Done()
			<-start
			fn(i)
		}(i)
	}
	close(start)
	wg.Wait()
}

func c14MaxSessions(limit, n int) (string, string, bool) {
	srv, err := c14Start(append([]string{"--max-sessions", fmt.Sprint(limit)}, c14NoRate...)...)
	if err != nil {
		return "server-start", err.Error(), false
	}
	defer srv.stop()
	var mu sync.Mutex
	ok, refused := 0, 0
	burst(n, func(int) {
		si := srv.createSession()
		mu.Lock()
		if si.Status == 201 {
			ok++
		} else if si.Status == 429 {
			refused++
		}
		mu.Unlock()
	})
	if limit > 0 && ok > limit {
		return "toctou-max-sessions", fmt.Sprintf("--max-sessions %d: a burst of %d concurrent creates produced %d live sessions (%d refused)", limit, n, ok, refused), refused > 0
	}
	if limit == 0 && refused > 0 {
		return "zero-not-unlimited:max-sessions", fmt.Sprintf("--max-sessions 0: %d of %d creates refused", refused, n), true
	}
	if limit > 0 && ok < limit && refused > 0 {
		return "limit-too-strict:max-sessions", fmt.Sprintf("--max-sessions %d: only %d sessions created, %d refused", limit, ok, refused), true
	}
	return "", "", refused > 0 || limit == 0
}

func c14MaxReceivers(limit, n int) (string, string, bool) {
	srv, err := c14Start(append([]string{"--max-receivers-per-sender", fmt.Sprint(limit)}, c14NoRate...)...)
	if err != nil {
		return "server-start", err.Error(), false
	}
	defer srv.stop()
	si := srv.createSession()
	host, _, err := srv.dial(si.Code, "host", "sender")
	if err != nil {
		return "host-connect", err.Error(), false
	}
	defer host.close()
	var mu sync.Mutex
	var cls []*client
	refused := 0
	burst(n, func(i int) {
		c, st, err := srv.dial(si.Code, fmt.Sprintf("r%d", i), "receiver")
		mu.Lock()
		if err == nil {
			cls = append(cls, c)
		} else if st == 429 {
			refused++
		}
		mu.Unlock()
	})
	defer func() {
		for _, c := range cls {
			c.close()
		}
	}()
	time.Sleep(20 * time.Millisecond)
	open := 0
	for _, c := range cls {
		if !c.isClosed() {
			open++
		}
	}
	if limit > 0 && open > limit {
		return "toctou-receivers-per-sender", fmt.Sprintf("--max-receivers-per-sender %d: a burst of %d concurrent joins left %d receivers connected at once (%d refused)", limit, n, open, refused), refused > 0
	}
	if limit == 0 && refused > 0 {
		return "zero-not-unlimited:max-receivers-per-sender", fmt.Sprintf("%d of %d receivers refused with limit 0", refused, n), true
	}
	return "", "", refused > 0 || limit == 0
}

func c14MaxConns(limit, n int) (string, string, bool) {
	srv, err := c14Start(append([]string{"--max-ws-connections", fmt.Sprint(limit), "--max-receivers-per-sender", "0"}, c14NoRate...)...)
	if err != nil {
		return "server-start", err.Error(), false
	}
	defer srv.stop()
	si := srv.createSession()
	var mu sync.Mutex
	var cls []*client
	refused := 0
	// requests that pass every admission test but fail the websocket handshake (plain HTTP GET)
	// must not disturb the accounting of the connection limit
	first, _, err := srv.dial(si.Code, "first", "receiver")
	if err == nil {
		cls = append(cls, first)
		for k := 0; k < 3; k++ {
			if resp, err := http.Get(fmt.Sprintf("%s/ws?join_code=%s&peer_id=plain%d&role=receiver", srv.base, si.Code, k)); err == nil {
				resp.Body.Close()
			}
		}
	}
	burst(n, func(i int) {
		c, st, err := srv.dial(si.Code, fmt.Sprintf("r%d", i), "receiver")
		mu.Lock()
		if err == nil {
			cls = append(cls, c)
		} else if st == 429 {
			refused++
		}
		mu.Unlock()
	})
	defer func() {
		for _, c := range cls {
			c.close()
		}
	}()
	time.Sleep(20 * time.Millisecond)
	open := 0
	for _, c := range cls {
		if !c.isClosed() {
			open++
		}
	}
	if limit > 0 && open > limit {
		return "max-ws-connections-exceeded", fmt.Sprintf("--max-ws-connections %d: %d sockets open at once after a burst of %d (%d refused)", limit, open, n, refused), refused > 0
	}
	if limit == 0 && refused > 0 {
		return "zero-not-unlimited:max-ws-connections", fmt.Sprintf("%d of %d refused with limit 0", refused, n), true
	}
	// a failed (non-websocket) request must not leak a slot: after closing everything the full limit is available again
	return "", "", refused > 0 || limit == 0
}

func c14MessageSize(limit, size int) (string, string, bool) {
	srv, err := c14Start(append([]string{"--max-message-bytes", fmt.Sprint(limit)}, c14NoRate...)...)
	if err != nil {
		return "server-start", err.Error(), false
	}
	defer srv.stop()
	si := srv.createSession()
	a, _, err := srv.dial(si.Code, "a", "sender")
	if err != nil {
		return "connect", err.Error(), false
	}
	defer a.close()
	b, _, err := srv.dial(si.Code, "b", "receiver")
	if err != nil {
		return "connect", err.Error(), false
	}
	defer b.close()
	b.waitFor(time.Second, hasType(protocol.TypePeerList))
	// the message is padded so that it has exactly `size` bytes on the wire (or its minimal
	// length when that is more)
	mk := func(padLen int) []byte {
		payload, _ := json.Marshal(map[string]string{"tok": "big", "pad": strings.Repeat("x", padLen)})
		raw, _ := json.Marshal(protocol.Envelope{V: 1, Type: "x-verif", MsgID: "m1", To: "b", Payload: payload})
		return raw
	}
	raw := mk(0)
	if size > len(raw) {
		raw = mk(size - len(raw))
	}
	a.sendRaw(websocket.TextMessage, raw)
	got := b.waitFor(700*time.Millisecond, func(in []received) bool {
		for _, r := range in {
			if tokenOf(r) == "big" {
				return true
			}
		}
		return false
	})
	if limit > 0 && len(raw) > limit && got {
		return "oversize-message-delivered", fmt.Sprintf("--max-message-bytes %d: a %d-byte message was delivered", limit, len(raw)), true
	}
	if limit > 0 && len(raw) <= limit && !got {
		return "message-within-limit-dropped", fmt.Sprintf("--max-message-bytes %d: a %d-byte message was not delivered", limit, len(raw)), true
	}
	if limit == 0 && !got {
		return "msgsize-zero-is-64KiB", fmt.Sprintf("--max-message-bytes 0: a %d-byte message was not delivered (the server falls back to a 64 KiB cap)", len(raw)), true
	}
	return "", "", true
}

// c14MsgRate floods n messages over one connection; with idle > 0 one message is sent
// first and the connection then stays silent for that long (a bucket must not save up
// more than its burst while idle).
func c14MsgRate(rate, burstN, n int, idle time.Duration) (string, string, bool) {
	srv, err := c14Start("--ws-msgs-per-sec", fmt.Sprint(rate), "--ws-msgs-burst", fmt.Sprint(burstN), "--ws-connects-per-min", "0", "--session-creates-per-min", "0")
	if err != nil {
		return "server-start", err.Error(), false
	}
	defer srv.stop()
	si := srv.createSession()
	a, _, err := srv.dial(si.Code, "a", "sender")
	if err != nil {
		return "connect", err.Error(), false
	}
	defer a.close()
	b, _, err := srv.dial(si.Code, "b", "receiver")
	if err != nil {
		return "connect", err.Error(), false
	}
	defer b.close()
	b.waitFor(time.Second, hasType(protocol.TypePeerList))
	before := 0
	if idle > 0 {
		payload, _ := json.Marshal(map[string]string{"tok": "first"})
		a.sendEnv(protocol.Envelope{V: 1, Type: "x-verif", MsgID: "first", To: "b", Payload: payload})
		time.Sleep(idle)
		for _, r := range b.snapshot() {
			if tokenOf(r) != "" {
				before++
			}
		}
	}
	t0 := time.Now()
	for i := 0; i < n; i++ {
		payload, _ := json.Marshal(map[string]string{"tok": fmt.Sprintf("t%d", i)})
		if a.sendEnv(protocol.Envelope{V: 1, Type: "x-verif", MsgID: fmt.Sprint(i), To: "b", Payload: payload}) != nil {
			break
		}
	}
	time.Sleep(150 * time.Millisecond)
	t1 := time.Now()
	delivered := -before
	for _, r := range b.snapshot() {
		if tokenOf(r) != "" {
			delivered++
		}
	}
	if rate > 0 {
		eff := burstN
		if eff < 1 {
			eff = 1
		}
		allowed := float64(eff) + float64(rate)*t1.Sub(t0).Seconds() + 1
		if float64(delivered) > allowed {
			return "message-rate-exceeded", fmt.Sprintf("--ws-msgs-per-sec %d --ws-msgs-burst %d: %d messages delivered within %s (bound %.1f) after one message and %s of silence", rate, burstN, delivered, t1.Sub(t0), allowed, idle), true
		}
		return "", "", delivered < n
	}
	if delivered < n {
		return "zero-not-unlimited:ws-msgs-per-sec", fmt.Sprintf("rate limit disabled but only %d of %d messages delivered", delivered, n), true
	}
	return "", "", true
}

// c14RequestRate hammers websocket connects or session creations from this address for about
// 1.2 s while being refused; what is admitted must stay within burst + rate*elapsed (+1).
// With a pause the address hammers for 300 ms, stays silent for the pause and hammers again for
// 300 ms (a limiter must not forget a drained address early); the bound is the token bucket's
// over the whole time either way.
func c14RequestRate(what string, perMin, burstN int, pause ...time.Duration) (string, string, bool) {
	args := []string{"--ws-msgs-per-sec", "0", "--max-sessions", "0", "--max-ws-connections", "0", "--max-receivers-per-sender", "0"}
	if what == "ws" {
		args = append(args, "--ws-connects-per-min", fmt.Sprint(perMin), "--ws-connects-burst", fmt.Sprint(burstN), "--session-creates-per-min", "0")
	} else {
		args = append(args, "--session-creates-per-min", fmt.Sprint(perMin), "--session-creates-burst", fmt.Sprint(burstN), "--ws-connects-per-min", "0")
	}
	srv, err := c14Start(args...)
	if err != nil {
		return "server-start", err.Error(), false
	}
	defer srv.stop()
	t0 := time.Now()
	si := srv.createSession()
	admitted, refused, tried := 0, 0, 0
	if what == "session" && si.Status == 201 {
		admitted++
	}
	if si.Code == "" {
		return "connect", "no session", false
	}
	var open []*client
	defer func() {
		for _, c := range open {
			c.close()
		}
	}()
	phaseEnd := t0.Add(1200 * time.Millisecond)
	if len(pause) > 0 {
		phaseEnd = t0.Add(300 * time.Millisecond)
	}
	paused := false
	for tried < 4000 {
		if !time.Now().Before(phaseEnd) {
			if len(pause) == 0 || paused {
				break
			}
			paused = true
			time.Sleep(pause[0])
			phaseEnd = time.Now().Add(300 * time.Millisecond)
		}
		tried++
		if what == "ws" {
			role := "receiver"
			if tried == 1 {
				role = "sender"
			}
			c, st, err := srv.dial(si.Code, fmt.Sprintf("p%d", tried), role)
			if err == nil {
				admitted++
				open = append(open, c)
			} else if st == 429 {
				refused++
			}
		} else {
			s2 := srv.createSession()
			if s2.Status == 201 {
				admitted++
			} else if s2.Status == 429 {
				refused++
			}
		}
	}
	elapsed := time.Since(t0)
	if perMin == 0 {
		if refused > 0 {
			return "zero-not-unlimited:" + what + "-per-min", fmt.Sprintf("%d of %d requests refused with the rate limit disabled", refused, tried), true
		}
		return "", "", true
	}
	allowed := float64(burstN) + float64(perMin)/60*elapsed.Seconds() + 1
	if float64(admitted) > allowed {
		return "request-rate-exceeded:" + what, fmt.Sprintf("%s: %d per minute, burst %d: %d requests admitted within %s (bound %.1f) while %d were refused", what, perMin, burstN, admitted, elapsed.Round(time.Millisecond), allowed, refused), true
	}
	return "", "", refused > 0
}

func c14Lifetime(timeout time.Duration) (string, string, bool) {
	flagv := timeout.String()
	if timeout == 0 {
		flagv = "0"
	}
	if timeout < 0 { // a long lifetime: only the host-leaves part can be observed
		flagv, timeout = "1h", 0
	}
	srv, err := c14Start(append([]string{"--session-timeout", flagv}, c14NoRate...)...)
	if err != nil {
		return "server-start", err.Error(), false
	}
	defer srv.stop()
	// (a) admitted before expiry, refused after
	si := srv.createSession()
	early, st, err := srv.dial(si.Code, "early", "receiver")
	if err != nil {
		return "code-refused-while-live", fmt.Sprintf("join right after creation refused with %d (lifetime %s)", st, timeout), true
	}
	early.close()
	if timeout == 0 {
		// no lifetime configured: the code keeps admitting (until the host leaves, part b)
		time.Sleep(700 * time.Millisecond)
		later, st, err := srv.dial(si.Code, "later", "receiver")
		if err != nil {
			return "code-refused-while-live", fmt.Sprintf("session lifetime disabled, join %s after creation refused with %d", time.Since(si.Created), st), true
		}
		later.close()
	} else if late, st, err := func() (*client, int, error) {
		time.Sleep(timeout + 500*time.Millisecond - time.Since(si.Created))
		return srv.dial(si.Code, "late", "receiver")
	}(); err == nil {
		late.close()
		return "code-admits-after-expiry", fmt.Sprintf("join %s after creation admitted (lifetime %s)", time.Since(si.Created), timeout), true
	} else if st != 404 {
		return "unexpected-status-after-expiry", fmt.Sprintf("status %d", st), true
	}
	// (b) refused after the host disconnected
	s2 := srv.createSession()
	host, _, err := srv.dial(s2.Code, "host", "sender")
	if err != nil {
		return "host-connect", err.Error(), false
	}
	r1, _, err := srv.dial(s2.Code, "r1", "receiver")
	if err != nil {
		return "code-refused-while-live", "receiver refused while the host is connected", true
	}
	defer r1.close()
	host.close()
	if !r1.waitFor(5*time.Second, func(in []received) bool {
		for _, r := range in {
			if r.Env.Type == protocol.TypePeerLeft && strings.Contains(r.Raw, "host") {
				return true
			}
		}
		return false
	}) {
		// (the notification is only used to know that the server has noticed the host's
		// departure; it is not part of this property - wait it out instead)
		time.Sleep(3 * time.Second)
	}
	time.Sleep(300 * time.Millisecond)
	if r2, st, err := srv.dial(s2.Code, "r2", "receiver"); err == nil {
		r2.close()
		return "code-admits-after-host-left", "a receiver was admitted 300 ms after the host had disconnected", true
	} else if st != 404 {
		return "unexpected-status-after-host-left", fmt.Sprintf("status %d", st), true
	}
	return "", "", true
}

// c14Infra are outcomes that say nothing about the property: the probe could not be set up.
var c14Infra = map[string]bool{"server-start": true, "connect": true, "host-connect": true}

func TestVerifC14Server(t *testing.T) {
	rec := verifkit.NewRecorder("C14", "server")
	defer rec.Flush()
	sh, nsh := verifkit.Shard()
	type probe struct {
		name string
		run  func() (string, string, bool)
	}
	var probes []probe
	for _, lim := range []int{1, 2, 3} {
		lim := lim
		probes = append(probes,
			probe{fmt.Sprintf("max-sessions=%d burst=24", lim), func() (string, string, bool) { return c14MaxSessions(lim, 64) }},
			probe{fmt.Sprintf("max-receivers=%d burst=16", lim), func() (string, string, bool) { return c14MaxReceivers(lim, 16) }},
			probe{fmt.Sprintf("max-ws-connections=%d burst=16", lim+1), func() (string, string, bool) { return c14MaxConns(lim+1, 16) }},
		)
	}
	probes = append(probes,
		probe{"max-sessions=0 (30 creates)", func() (string, string, bool) { return c14MaxSessions(0, 30) }},
		probe{"max-receivers=0 (25 receivers)", func() (string, string, bool) { return c14MaxReceivers(0, 25) }},
		probe{"max-ws-connections=0 (40 sockets)", func() (string, string, bool) { return c14MaxConns(0, 40) }},
		probe{"max-message-bytes=2000 size 3000", func() (string, string, bool) { return c14MessageSize(2000, 3000) }},
		probe{"max-message-bytes=2000 size 2000", func() (string, string, bool) { return c14MessageSize(2000, 2000) }},
		probe{"max-message-bytes=2000 size 2001", func() (string, string, bool) { return c14MessageSize(2000, 2001) }},
		probe{"max-message-bytes=2000 size 2014", func() (string, string, bool) { return c14MessageSize(2000, 2014) }},
		probe{"ws-connects-per-min=60 burst 3", func() (string, string, bool) { return c14RequestRate("ws", 60, 3) }},
		probe{"session-creates-per-min=120 burst 2", func() (string, string, bool) { return c14RequestRate("session", 120, 2) }},
		probe{"ws-connects-per-min=30 burst 3 (the default rate)", func() (string, string, bool) { return c14RequestRate("ws", 30, 3) }},
		probe{"session-creates-per-min=10 burst 2 (the default rate)", func() (string, string, bool) { return c14RequestRate("session", 10, 2) }},
		probe{"ws-connects-per-min=6 burst 2, 2.4 s pause", func() (string, string, bool) { return c14RequestRate("ws", 6, 2, 2400*time.Millisecond) }},
		probe{"session-creates-per-min=6 burst 2, 2.4 s pause", func() (string, string, bool) { return c14RequestRate("session", 6, 2, 2400*time.Millisecond) }},
		probe{"max-message-bytes=2000 size 1000", func() (string, string, bool) { return c14MessageSize(2000, 1000) }},
		probe{"max-message-bytes=0 size 100000", func() (string, string, bool) { return c14MessageSize(0, 100000) }},
		probe{"ws-msgs-per-sec=20 burst=5 n=80", func() (string, string, bool) { return c14MsgRate(20, 5, 80, 0) }},
		probe{"ws-msgs-per-sec=40 burst=5 n=120 after 1.5s idle", func() (string, string, bool) { return c14MsgRate(40, 5, 120, 1500*time.Millisecond) }},
		probe{"ws-msgs-per-sec=0 n=200", func() (string, string, bool) { return c14MsgRate(0, 5, 200, 0) }},
		probe{"session-timeout=1.2s lifetime", func() (string, string, bool) { return c14Lifetime(1200 * time.Millisecond) }},
		probe{"session-timeout=0 lifetime", func() (string, string, bool) { return c14Lifetime(0) }},
		probe{"session-timeout=1h lifetime (host leaves)", func() (string, string, bool) { return c14Lifetime(-1) }},
	)
	var wg sync.WaitGroup
	var mu sync.Mutex
	type outcome struct {
		p           probe
		sig, detail string
		nontrivial  bool
	}
	var outs []outcome
	for i, p := range probes {
		if i%nsh != sh {
			continue
		}
		wg.Add(1)
		go func(p probe) {
			defer wg.Done()
			s, d, nt := p.run()
			mu.Lock()
			outs = append(outs, outcome{p, s, d, nt})
			mu.Unlock()
		}(p)
	}
	wg.Wait()
	for _, o := range outs {
		rec.Eval()
		rec.Class("probe/" + strings.SplitN(o.p.name, "=", 2)[0])
		if c14Infra[o.sig] {
			// the probe could not be set up (server did not start, a client the probe needs
			// could not connect): nothing was observed about a limit
			rec.Class("probe-not-run")
			rec.Note("probe %s not run: %s %s", o.p.name, o.sig, o.detail)
			continue
		}
		if o.sig != "" {
			rec.Fail(t, o.sig, o.detail+" | probe: "+o.p.name)
			continue
		}
		if o.nontrivial {
			rec.NonTrivial(o.p.name)
		}
		if rec.SampleWanted() {
			rec.Sample(o.p.name)
		}
	}
	// generated limit values and burst sizes
	rapid.Check(t, func(rt *rapid.T) {
		kind := rapid.SampledFrom([]string{"sessions", "receivers", "conns", "msgsize", "msgsize", "msgrate", "reqrate"}).Draw(rt, "kind")
		lim := rapid.IntRange(0, 4).Draw(rt, "limit")
		n := rapid.IntRange(8, 32).Draw(rt, "burst")
		var sig, detail string
		var nt bool
		switch kind {
		case "sessions":
			sig, detail, nt = c14MaxSessions(lim, n)
		case "receivers":
			sig, detail, nt = c14MaxReceivers(lim, n)
		case "conns":
			sig, detail, nt = c14MaxConns(lim, n)
		case "msgsize":
			limit := rapid.SampledFrom([]int{0, 500, 2000, 70000}).Draw(rt, "bytes")
			size := rapid.SampledFrom([]int{100, 400, 1900, 2100, 60000, 90000}).Draw(rt, "size")
			if limit > 0 && rapid.IntRange(0, 2).Draw(rt, "near_limit") > 0 {
				// sizes at and around the limit itself
				size = limit + rapid.SampledFrom([]int{-17, -2, -1, 0, 1, 2, 3, 7, 8, 13, 14, 15, 16, 31, 64}).Draw(rt, "delta")
			}
			sig, detail, nt = c14MessageSize(limit, size)
		case "reqrate":
			sig, detail, nt = c14RequestRate(rapid.SampledFrom([]string{"ws", "session"}).Draw(rt, "what"), rapid.SampledFrom([]int{0, 10, 30, 45, 60, 90, 120, 600}).Draw(rt, "per_min"), rapid.IntRange(1, 6).Draw(rt, "b"))
		default:
			rate := rapid.SampledFrom([]int{0, 10, 40}).Draw(rt, "rate")
			idle := rapid.SampledFrom([]time.Duration{0, 0, 900 * time.Millisecond}).Draw(rt, "idle")
			sig, detail, nt = c14MsgRate(rate, rapid.IntRange(1, 8).Draw(rt, "b"), rapid.IntRange(20, 120).Draw(rt, "n"), idle)
		}
		if c14Infra[sig] {
			rec.Class("probe-not-run")
			return
		}
		rec.Eval()
		rec.Class("generated/" + kind)
		if sig != "" {
			rec.Fail(rt, sig, fmt.Sprintf("%s | kind=%s limit=%d burst=%d", detail, kind, lim, n))
			return
		}
		if nt {
			rec.NonTrivial(fmt.Sprintf("%s/%d/%d", kind, lim, n))
		}
	})
}
