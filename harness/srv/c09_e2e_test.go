package verifsrv

import (
	"bufio"
	"bytes"
	"fmt"
	"net"
	"os"
	"os/exec"
	"path/filepath"
	"regexp"
	"strings"
	"sync"
	"syscall"
	"testing"
	"time"

	"github.com/sheerbytes/sheerbytes/internal/verifkit"
	"github.com/sheerbytes/sheerbytes/internal/verifnet"
	"pgregory.net/rapid"
)

// ---- C09 (both peers, real binaries): host and join end up on the same connection -------------
//
// thruserv, `thru host` and `thru join` (all built from the tree under test) run as
// processes on this machine. Every local address is a candidate, so the sender probes the
// receiver under several addresses in parallel, keeps one connection and closes the
// others, while the receiver sees them arrive in its own order. Oracle: the join process
// exits with status 0 in bounded time and its output directory holds exactly the hosted
// tree - i.e. authentication and the transfer started on one and the same connection.
// The case is non-trivial when the host has at least two usable local addresses (several
// handshakes race) - otherwise it is only an end-to-end smoke run.

var joinCodeRe = regexp.MustCompile(`Join Code: ([A-Z0-9]{8})`)

type e2eHost struct {
	cmd  *exec.Cmd
	code string
	log  *lockedBuf
	done chan struct{}
}

type lockedBuf struct {
	mu sync.Mutex
	b  bytes.Buffer
}

func (l *lockedBuf) Write(p []byte) (int, error) {
	l.mu.Lock()
	defer l.mu.Unlock()
	return l.b.Write(p)
}
func (l *lockedBuf) String() string { l.mu.Lock(); defer l.mu.Unlock(); return l.b.String() }

func startHost(bin, serverURL string, paths []string, extra ...string) (*e2eHost, error) {
	args := append([]string{"host"}, paths...)
	args = append(args, "--server-url", serverURL, "--verbose")
	args = append(args, extra...)
	h := &e2eHost{log: &lockedBuf{}, done: make(chan struct{})}
	h.cmd = exec.Command(bin, args...)
	h.cmd.SysProcAttr = &syscall.SysProcAttr{Pdeathsig: syscall.SIGKILL}
	pr, pw, _ := os.Pipe()
	h.cmd.Stdout, h.cmd.Stderr = pw, pw
	if err := h.cmd.Start(); err != nil {
		return nil, err
	}
	pw.Close()
	codeCh := make(chan string, 1)
	go func() {
		sc := bufio.NewScanner(pr)
		sc.Buffer(make([]byte, 1<<20), 1<<20)
		sent := false
		for sc.Scan() {
			line := sc.Text()
			if h.log.b.Len() < 1<<20 {
				h.log.Write([]byte(line + "\n"))
			}
			if m := joinCodeRe.FindStringSubmatch(line); m != nil && !sent {
				sent = true
				codeCh <- m[1]
			}
		}
	}()
	go func() { h.cmd.Wait(); close(h.done) }()
	select {
	case h.code = <-codeCh:
		return h, nil
	case <-h.done:
		return nil, fmt.Errorf("thru host exited early: %s", tailOf(h.log.String(), 600))
	case <-time.After(20 * time.Second):
		h.stop()
		return nil, fmt.Errorf("thru host printed no join code within 20 s: %s", tailOf(h.log.String(), 600))
	}
}

func (h *e2eHost) stop() {
	if h.cmd != nil && h.cmd.Process != nil {
		h.cmd.Process.Kill()
		<-h.done
	}
}

func tailOf(s string, n int) string {
	if len(s) > n {
		return "..." + s[len(s)-n:]
	}
	return s
}

// runJoin runs `thru join`, answering the prompt; returns exit status (-1: killed after the time limit) and its log.
func runJoin(bin, serverURL, code, out string, limit time.Duration) (int, string) {
	cmd := exec.Command(bin, "join", code, "--out", out, "--server-url", serverURL, "--verbose")
	cmd.SysProcAttr = &syscall.SysProcAttr{Pdeathsig: syscall.SIGKILL}
	var log lockedBuf
	cmd.Stdout, cmd.Stderr = &log, &log
	stdin, _ := cmd.StdinPipe()
	if err := cmd.Start(); err != nil {
		return -2, err.Error()
	}
	go answerPrompts(stdin)
	done := make(chan error, 1)
	go func() { done <- cmd.Wait() }()
	select {
	case err := <-done:
		stdin.Close()
		if err == nil {
			return 0, log.String()
		}
		if ee, ok := err.(*exec.ExitError); ok {
			return ee.ExitCode(), log.String()
		}
		return -2, log.String() + err.Error()
	case <-time.After(limit):
		cmd.Process.Kill()
		<-done
		return -1, log.String()
	}
}

func usableLocalAddrs() int {
	n := 0
	addrs, _ := net.InterfaceAddrs()
	for _, a := range addrs {
		if ipn, ok := a.(*net.IPNet); ok && !ipn.IP.IsLinkLocalUnicast() && !ipn.IP.IsMulticast() {
			n++
		}
	}
	return n
}

func TestVerifC09E2E(t *testing.T) { e2eCases(t, "C09") }

// TestVerifC03E2E: the same end-to-end runs read as C03 - with both peers healthy a session
// is established through the real signaling server and the transfer of a valid tree
// finishes on the receiving side in bounded time (the host's own verdict is not
// observable from outside the process and is not judged).
func TestVerifC03E2E(t *testing.T) { e2eCases(t, "C03") }

// TestVerifC01E2E: the same runs read as C01 over real QUIC with the complete applications:
// whenever `thru join` reports success (exit status 0) its output directory must hold
// exactly the hosted tree; a failed join is not C01's business.
func TestVerifC01E2E(t *testing.T) { e2eCases(t, "C01") }

func e2eCases(t *testing.T, prop string) {
	rec := verifkit.NewRecorder(prop, "e2e")
	defer rec.Flush()
	thru := filepath.Join(os.Getenv("VERIF_BIN"), "thru")
	if _, err := os.Stat(thru); err != nil {
		t.Skip("thru binary not built")
	}
	nAddrs := usableLocalAddrs()
	rapid.Check(t, func(rt *rapid.T) {
		chunk := rapid.SampledFrom([]int{64, 1000, 4096}).Draw(rt, "content_scale")
		tree := verifnet.GenTree(rt, chunk, verifnet.GenOpts{MaxFiles: 3, MinFiles: 1, MaxChunks: 6})
		conns := rapid.SampledFrom([]int{0, 1, 2, 4}).Draw(rt, "total_connections")
		joins := rapid.IntRange(1, 2).Draw(rt, "receivers_in_turn")
		dir := verifkit.ScratchDir(t, "c09e2e")
		defer os.RemoveAll(dir)
		src := filepath.Join(dir, "src")
		root, err := tree.Materialize(src)
		if err != nil {
			rec.Class("not-run-materialize")
			return
		}
		srv, err := startServer("--ws-connects-per-min", "0", "--session-creates-per-min", "0")
		if err != nil {
			rec.Class("not-run-server")
			return
		}
		defer srv.stop()
		var extra []string
		if conns > 0 {
			extra = append(extra, "--total-connections", fmt.Sprint(conns))
		}
		host, err := startHost(thru, srv.base, []string{root}, extra...)
		if err != nil {
			rec.Class("not-run-host")
			rec.Note("host not started: %v", err)
			return
		}
		defer host.stop()
		for j := 0; j < joins; j++ {
			out := filepath.Join(dir, fmt.Sprintf("out%d", j))
			os.MkdirAll(out, 0755)
			t0 := time.Now()
			status, jlog := runJoin(thru, srv.base, host.code, out, 60*time.Second)
			dur := time.Since(t0)
			rec.Eval()
			abandoned := strings.Count(jlog, "abandoned by the sender")
			desc := fmt.Sprintf("tree %s, total-connections=%d, receiver %d of %d, %d usable local addresses, %.1fs", tree.Describe(), conns, j+1, joins, nAddrs, dur.Seconds())
			if abandoned > 0 {
				rec.Class("receiver-skipped-abandoned-connections")
			}
			if status != 0 && prop == "C01" {
				rec.Class("join-not-ok")
				continue
			}
			if status != 0 {
				if joinNeverStarted(jlog) {
					rec.Class("not-run-join-never-reached-the-session")
					rec.Note("join printed nothing but its banner (status %d after %.0fs): %s", status, dur.Seconds(), desc)
					return
				}
				sig := "e2e:join-failed"
				if status == -1 {
					sig = "e2e:join-did-not-finish"
				}
				if strings.Contains(jlog, "transport auth failed") || strings.Contains(host.log.String(), "transport auth failed") {
					sig = "e2e:peers-on-different-connections"
				}
				rec.Fail(rt, sig, fmt.Sprintf("thru join ended with status %d | %s\n--- join log (tail) ---\n%s\n--- host log (errors) ---\n%s", status, desc, tailOf(jlog, 1500), grepErrors(host.log.String())))
				return
			}
			if prop == "C09" && strings.Contains(jlog, "failed to accept extra connections") && (strings.Contains(jlog, "race_lost") || strings.Contains(jlog, "Application error 0x0")) {
				// the transfer went through on one connection, but only after the receiver had taken a
				// connection the sender abandoned for one of the additional connections and given up
				rec.Fail(rt, "e2e:extra-connection-slot-taken-by-abandoned-attempt", fmt.Sprintf("the receiver committed to an abandoned connection while waiting for the additional connections and lost them | %s\n--- join log (tail) ---\n%s", desc, tailOf(jlog, 1200)))
				return
			}
			got, derr := verifnet.Digest(out)
			if derr != nil {
				rec.Fail(rt, "e2e:output-unreadable", derr.Error()+" | "+desc)
				return
			}
			// the receiver places the tree under <out>/<base>; compare below the first level that holds it
			want := tree.Expected(tree.Base)
			if diff := verifnet.DiffDigests(want, stripResume(got)); diff != "" {
				rec.Fail(rt, "e2e:tree-differs-after-success", diff+" | "+desc)
				return
			}
			if nAddrs >= 2 {
				rec.NonTrivial(fmt.Sprintf("%s|%d|%d", tree.Describe(), conns, j))
			}
			if rec.SampleWanted() {
				rec.Sample(map[string]any{"case": desc, "abandoned_connections_skipped": abandoned})
			}
		}
	})
}

// joinNeverStarted: the join process printed nothing but its banner - it did not get as far as
// the signaling server (a server of another concurrently running check on the same port, a
// machine that stalls for a minute). Such a run says nothing about the peers' behaviour in a
// session and is not judged.
func joinNeverStarted(jlog string) bool {
	return !strings.Contains(jlog, "level=") && !strings.Contains(jlog, "QUIC") && !strings.Contains(jlog, "candidates") && !strings.Contains(jlog, "transfer")
}

func grepErrors(s string) string {
	var out []string
	for _, l := range strings.Split(s, "\n") {
		if strings.Contains(l, "level=ERROR") || strings.Contains(l, "failed") {
			out = append(out, l)
		}
	}
	if len(out) > 12 {
		out = out[len(out)-12:]
	}
	return strings.Join(out, "\n")
}

func stripResume(in []verifnet.Entry) []verifnet.Entry {
	var out []verifnet.Entry
	for _, e := range in {
		if e.Rel == verifnet.ResumeDirName || strings.HasPrefix(e.Rel, verifnet.ResumeDirName+"/") {
			continue
		}
		out = append(out, e)
	}
	return out
}
