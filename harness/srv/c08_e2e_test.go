package verifsrv

import (
	"context"
	"encoding/json"
	"fmt"
	"io"
	"log/slog"
	"net"
	"net/http"
	"net/http/httputil"
	"net/url"
	"os"
	"path/filepath"
	"strings"
	"sync"
	"sync/atomic"
	"testing"
	"time"

	"github.com/gorilla/websocket"
	"github.com/quic-go/quic-go"
	"github.com/sheerbytes/sheerbytes/internal/quictransport"
	"github.com/sheerbytes/sheerbytes/internal/transfer"
	"github.com/sheerbytes/sheerbytes/internal/transferquic"
	"github.com/sheerbytes/sheerbytes/internal/verifkit"
	"github.com/sheerbytes/sheerbytes/internal/verifnet"
	"github.com/sheerbytes/sheerbytes/pkg/manifest"
	"pgregory.net/rapid"
)

// ---- C08 (real binaries, attacker on the path) ------------------------------------------------
//
// thruserv, `thru host` and `thru join` run as processes. The attacker controls the network
// between the peers but does not hold the join code: the receiver's candidate list is
// rewritten on its way through signaling so that the sender can reach the receiver only
// through the attacker's UDP port. Per case the attacker
//   - forwards every packet untouched (control: the honest transfer must then succeed), or
//   - forwards the first flow untouched (the primary connection authenticates end to end) and
//     terminates every later flow - the additional connections of the transfer - as a QUIC
//     server of its own, opening a second QUIC connection to the receiver and copying stream
//     bytes between the two TLS sessions, or
//   - forwards the first two flows (primary and first additional connection) and terminates
//     the later ones, or
//   - terminates every flow.
// On a terminated flow the two peers are not the two ends of one TLS session, so
// authentication cannot succeed there; the attacker sees all stream bytes in the clear and
// counts them. Oracle: on a terminated flow nothing beyond the authentication exchange
// travels (no manifest byte, no file byte), and a `thru join` that exits 0 holds exactly
// the hosted tree.
//
// This is the only unit that runs the wiring inside runICEQUICTransfer / runTransfer: which
// connection's keying material authenticates which connection is decided there.

const c08AuthSlack = 256 // bytes per direction and flow; the authentication message has 50

type c08Relay struct {
	sock    *net.UDPConn
	mode    string
	mu      sync.Mutex
	target  *net.UDPAddr
	first   string
	rawKeys map[string]bool
	fwd     map[string]*net.UDPConn
	quicIn  chan c08Pkt
	closed  chan struct{}
	once    sync.Once

	forwardedFlows  int32
	terminatedFlows int32
	bridged         int32 // terminated flows for which the second leg came up
	maxDirBytes     int64 // most stream bytes copied in one direction of one terminated flow
	totalBytes      int64

	evilRoot    string // rogue-sender: the tree the attacker tries to plant
	rogueDialed int32  // rogue-sender: the attacker's own connection to the receiver came up
	rogueNote   atomic.Value
}

type c08Pkt struct {
	b    []byte
	from net.Addr
}

func newC08Relay(mode string) (*c08Relay, error) {
	s, err := net.ListenUDP("udp", &net.UDPAddr{IP: net.IPv4(127, 0, 0, 1)})
	if err != nil {
		return nil, err
	}
	s.SetReadBuffer(4 << 20)
	s.SetWriteBuffer(4 << 20)
	r := &c08Relay{sock: s, mode: mode, rawKeys: map[string]bool{}, fwd: map[string]*net.UDPConn{}, quicIn: make(chan c08Pkt, 4096), closed: make(chan struct{})}
	go r.readLoop()
	if mode != "forward" && mode != "rogue-sender" {
		go r.terminate()
	}
	return r, nil
}

func (r *c08Relay) addr() string { return r.sock.LocalAddr().String() }

func (r *c08Relay) setTarget(a *net.UDPAddr) {
	r.mu.Lock()
	first := r.target == nil
	if first {
		r.target = a
	}
	r.mu.Unlock()
	if first && r.mode == "rogue-sender" {
		go r.rogueSender(a)
	}
}

func (r *c08Relay) close() {
	r.once.Do(func() {
		close(r.closed)
		r.sock.Close()
		r.mu.Lock()
		for _, c := range r.fwd {
			c.Close()
		}
		r.mu.Unlock()
	})
}

func (r *c08Relay) readLoop() {
	buf := make([]byte, 65536)
	for {
		n, from, err := r.sock.ReadFromUDP(buf)
		if err != nil {
			return
		}
		if r.mode == "rogue-sender" {
			continue // the honest sender's packets go nowhere
		}
		key := from.String()
		r.mu.Lock()
		target := r.target
		if r.first == "" {
			r.first = key
		}
		// flows are told apart by the sender's source port; the first ones (in order of
		// appearance) pass untouched: all of them, the primary only, the primary and the first
		// additional connection, or none
		limit := map[string]int{"forward": 1 << 30, "terminate-extras": 1, "terminate-later-extras": 2}[r.mode]
		if _, seen := r.rawKeys[key]; !seen && len(r.rawKeys) < limit {
			r.rawKeys[key] = true
		}
		raw := r.rawKeys[key]
		var up *net.UDPConn
		if raw && target != nil {
			up = r.fwd[key]
			if up == nil {
				if c, err := net.DialUDP("udp", nil, target); err == nil {
					c.SetReadBuffer(4 << 20)
					c.SetWriteBuffer(4 << 20)
					up = c
					r.fwd[key] = c
					atomic.AddInt32(&r.forwardedFlows, 1)
					go r.back(c, from)
				}
			}
		}
		r.mu.Unlock()
		if raw {
			if up != nil {
				up.Write(buf[:n])
			}
			continue
		}
		p := c08Pkt{b: append([]byte(nil), buf[:n]...), from: from}
		select {
		case r.quicIn <- p:
		default: // a dropped datagram; QUIC retransmits
		}
	}
}

func (r *c08Relay) back(up *net.UDPConn, to *net.UDPAddr) {
	buf := make([]byte, 65536)
	for {
		n, err := up.Read(buf)
		if err != nil {
			return
		}
		r.sock.WriteToUDP(buf[:n], to)
	}
}

// c08PacketConn hands the flows that are to be terminated to a quic.Transport.
type c08PacketConn struct{ r *c08Relay }

func (c c08PacketConn) ReadFrom(p []byte) (int, net.Addr, error) {
	select {
	case pk := <-c.r.quicIn:
		return copy(p, pk.b), pk.from, nil
	case <-c.r.closed:
		return 0, nil, net.ErrClosed
	}
}
func (c c08PacketConn) WriteTo(p []byte, a net.Addr) (int, error) { return c.r.sock.WriteTo(p, a) }
func (c c08PacketConn) Close() error                              { return nil }
func (c c08PacketConn) LocalAddr() net.Addr                       { return c.r.sock.LocalAddr() }
func (c c08PacketConn) SetDeadline(time.Time) error               { return nil }
func (c c08PacketConn) SetReadDeadline(time.Time) error           { return nil }
func (c c08PacketConn) SetWriteDeadline(time.Time) error          { return nil }

func (r *c08Relay) terminate() {
	tr := &quic.Transport{Conn: c08PacketConn{r}}
	ln, err := tr.Listen(quictransport.ServerConfig(), quictransport.DefaultServerQUICConfig())
	if err != nil {
		return
	}
	go func() { <-r.closed; ln.Close(); tr.Close() }()
	for {
		a, err := ln.Accept(context.Background())
		if err != nil {
			return
		}
		atomic.AddInt32(&r.terminatedFlows, 1)
		go r.bridge(a)
	}
}

// bridge: a second TLS session towards the receiver, stream bytes copied verbatim both ways.
func (r *c08Relay) bridge(a *quic.Conn) {
	defer a.CloseWithError(0, "")
	if r.mode == "impersonate-receiver" {
		r.impersonate(a)
		return
	}
	r.mu.Lock()
	target := r.target
	r.mu.Unlock()
	if target == nil {
		return
	}
	ctx, cancel := context.WithCancel(context.Background())
	defer cancel()
	go func() {
		select {
		case <-r.closed:
			cancel()
		case <-ctx.Done():
		}
	}()
	udp, err := net.ListenUDP("udp", &net.UDPAddr{IP: net.IPv4(127, 0, 0, 1)})
	if err != nil {
		return
	}
	defer udp.Close()
	tr := &quic.Transport{Conn: udp}
	defer tr.Close()
	dctx, dcancel := context.WithTimeout(ctx, 5*time.Second)
	b, err := tr.Dial(dctx, target, quictransport.ClientConfig(), quictransport.DefaultClientQUICConfig())
	dcancel()
	if err != nil {
		return
	}
	defer b.CloseWithError(0, "")
	atomic.AddInt32(&r.bridged, 1)
	var ab, ba int64 // stream bytes sender->receiver, receiver->sender on this flow
	note := r.noteDir
	// The attacker keeps reading whatever a peer sends even when the other half is gone.
	pipe := func(dst io.WriteCloser, src io.Reader, ctr *int64) {
		buf := make([]byte, 32<<10)
		for {
			n, err := src.Read(buf)
			if n > 0 {
				note(ctr, n)
				if dst != nil {
					if _, werr := dst.Write(buf[:n]); werr != nil {
						dst = nil
					}
				}
			}
			if err != nil {
				// end of this direction, orderly or not: the other peer sees the stream end
				// (a peer that waits for an answer is not kept waiting by the attacker)
				if dst != nil {
					dst.Close()
				}
				return
			}
		}
	}
	serve := func(from, to *quic.Conn, fwdCtr, backCtr *int64) {
		for {
			s, err := from.AcceptStream(ctx)
			if err != nil {
				return
			}
			d, err := to.OpenStreamSync(ctx)
			if err != nil {
				go pipe(nil, s, fwdCtr)
				continue
			}
			go pipe(d, s, fwdCtr)
			go pipe(s, d, backCtr)
		}
	}
	go serve(b, a, &ba, &ab)
	go serve(a, b, &ab, &ba)
	// the half towards the sender stays open until the sender gives up or the case ends
	select {
	case <-a.Context().Done():
	case <-ctx.Done():
	}
}

func (r *c08Relay) noteDir(ctr *int64, n int) {
	v := atomic.AddInt64(ctr, int64(n))
	atomic.AddInt64(&r.totalBytes, int64(n))
	for {
		m := atomic.LoadInt64(&r.maxDirBytes)
		if v <= m || atomic.CompareAndSwapInt64(&r.maxDirBytes, m, v) {
			break
		}
	}
}

// impersonate: the attacker answers in the receiver's place (the receiver is never contacted):
// the sender's authentication message is reflected, everything the sender sends is read.
func (r *c08Relay) impersonate(a *quic.Conn) {
	atomic.AddInt32(&r.bridged, 1)
	var fromSender int64
	first := true
	for {
		s, err := a.AcceptStream(context.Background())
		if err != nil {
			return
		}
		reflect := first
		first = false
		go func() {
			buf := make([]byte, 32<<10)
			got := 0
			for {
				n, err := s.Read(buf)
				if n > 0 {
					r.noteDir(&fromSender, n)
					if reflect && got < 50 && got+n >= 50 {
						msg := append([]byte(nil), buf[:n]...)
						if len(msg) > 50 {
							msg = msg[:50]
						}
						s.Write(msg)
					}
					got += n
				}
				if err != nil {
					return
				}
			}
		}()
	}
}

// rogueSender: the attacker dials the receiver in the sender's place, sends an authentication
// message it cannot compute (it has no join code) and then behaves like a sender with a tree
// of its own.
func (r *c08Relay) rogueSender(target *net.UDPAddr) {
	note := func(f string, a ...any) { r.rogueNote.Store(fmt.Sprintf(f, a...)) }
	ctx, cancel := context.WithTimeout(context.Background(), 20*time.Second)
	defer cancel()
	go func() {
		select {
		case <-r.closed:
			cancel()
		case <-ctx.Done():
		}
	}()
	udp, err := net.ListenUDP("udp", &net.UDPAddr{IP: net.IPv4(127, 0, 0, 1)})
	if err != nil {
		return
	}
	defer udp.Close()
	tr := &quic.Transport{Conn: udp}
	defer tr.Close()
	var qc *quic.Conn
	for i := 0; i < 20 && ctx.Err() == nil; i++ {
		dctx, dcancel := context.WithTimeout(ctx, 2*time.Second)
		qc, err = tr.Dial(dctx, target, quictransport.ClientConfig(), quictransport.DefaultClientQUICConfig())
		dcancel()
		if err == nil {
			break
		}
		time.Sleep(150 * time.Millisecond)
	}
	if qc == nil || err != nil {
		note("the attacker could not reach the receiver: %v", err)
		return
	}
	defer qc.CloseWithError(0, "")
	atomic.AddInt32(&r.rogueDialed, 1)
	logger := slog.New(slog.NewTextHandler(io.Discard, nil))
	qt := transferquic.NewDialer(qc, logger)
	defer qt.Close()
	tc, err := qt.Dial(ctx, "peer")
	if err != nil {
		note("transfer connection: %v", err)
		return
	}
	st, err := tc.OpenStream(ctx)
	if err != nil {
		note("auth stream: %v", err)
		return
	}
	msg := make([]byte, 50)
	msg[0], msg[1] = 1, 1 // version, role "sender"; nonce and MAC: the attacker cannot do better than guess
	for i := 2; i < len(msg); i++ {
		msg[i] = byte(i * 37)
	}
	st.Write(msg)
	reply := make([]byte, 50)
	rd := make(chan int, 1)
	go func() { n, _ := io.ReadFull(st, reply); rd <- n }()
	got := 0
	select {
	case got = <-rd:
	case <-time.After(2 * time.Second):
	}
	st.Close()
	m, err := manifest.Scan(r.evilRoot)
	if err != nil {
		note("scan: %v", err)
		return
	}
	err = transfer.SendManifestMultiStream(ctx, tc, r.evilRoot, m, transfer.Options{ChunkSize: 64 << 10, ParallelFiles: 1})
	note("authentication reply %d bytes; the attacker's send ended with: %v", got, err)
}

// c08Proxy sits between `thru join` and thruserv and rewrites the receiver's candidate list.
type c08Proxy struct {
	srv      *http.Server
	base     string
	rewrote  int32
	upstream *url.URL
	relay    *c08Relay
}

func newC08Proxy(upstreamBase string, relay *c08Relay) (*c08Proxy, error) {
	u, err := url.Parse(upstreamBase)
	if err != nil {
		return nil, err
	}
	ln, err := net.Listen("tcp", "127.0.0.1:0")
	if err != nil {
		return nil, err
	}
	p := &c08Proxy{upstream: u, relay: relay, base: "http://" + ln.Addr().String()}
	rp := httputil.NewSingleHostReverseProxy(u)
	mux := http.NewServeMux()
	mux.HandleFunc("/ws", p.ws)
	mux.Handle("/", rp)
	p.srv = &http.Server{Handler: mux}
	go p.srv.Serve(ln)
	return p, nil
}

func (p *c08Proxy) close() { p.srv.Close() }

var c08Upgrader = websocket.Upgrader{CheckOrigin: func(*http.Request) bool { return true }}

func (p *c08Proxy) ws(w http.ResponseWriter, req *http.Request) {
	up, resp, err := websocket.DefaultDialer.Dial("ws://"+p.upstream.Host+"/ws?"+req.URL.RawQuery, nil)
	if err != nil {
		code := http.StatusBadGateway
		if resp != nil {
			code = resp.StatusCode
		}
		http.Error(w, "upstream refused", code)
		return
	}
	defer up.Close()
	down, err := c08Upgrader.Upgrade(w, req, nil)
	if err != nil {
		return
	}
	defer down.Close()
	done := make(chan struct{}, 2)
	go func() { // server -> join
		defer func() { done <- struct{}{} }()
		for {
			mt, data, err := up.ReadMessage()
			if err != nil {
				return
			}
			if mt == websocket.TextMessage {
				data = p.hideSender(data)
			}
			if down.WriteMessage(mt, data) != nil {
				return
			}
		}
	}()
	go func() { // join -> server
		defer func() { done <- struct{}{} }()
		for {
			mt, data, err := down.ReadMessage()
			if err != nil {
				return
			}
			if mt == websocket.TextMessage {
				data = p.rewrite(data)
			}
			if up.WriteMessage(mt, data) != nil {
				return
			}
		}
	}()
	<-done
}

// hideSender: the receiver dials the sender's candidates as well; they are replaced by a
// closed port, so that the attacker's port is the only way between the peers.
func (p *c08Proxy) hideSender(data []byte) []byte {
	var env map[string]json.RawMessage
	if json.Unmarshal(data, &env) != nil {
		return data
	}
	var typ string
	json.Unmarshal(env["type"], &typ)
	if typ != "ice_candidates" {
		return data
	}
	npl, _ := json.Marshal(map[string]any{"candidates": []string{"127.0.0.1:1"}})
	env["payload"] = npl
	out, err := json.Marshal(env)
	if err != nil {
		return data
	}
	return out
}

func (p *c08Proxy) rewrite(data []byte) []byte {
	var env map[string]json.RawMessage
	if json.Unmarshal(data, &env) != nil {
		return data
	}
	var typ string
	json.Unmarshal(env["type"], &typ)
	if typ != "ice_candidates" {
		return data
	}
	var pl struct {
		Candidates []string `json:"candidates"`
	}
	if json.Unmarshal(env["payload"], &pl) != nil {
		return data
	}
	var target *net.UDPAddr
	for _, c := range pl.Candidates {
		a, err := net.ResolveUDPAddr("udp", c)
		if err != nil || a.IP.To4() == nil {
			continue
		}
		if a.IP.IsLoopback() {
			target = a
			break
		}
		if target == nil {
			target = a
		}
	}
	if target == nil {
		return data
	}
	p.relay.setTarget(target)
	npl, _ := json.Marshal(map[string]any{"candidates": []string{p.relay.addr()}})
	env["payload"] = npl
	out, err := json.Marshal(env)
	if err != nil {
		return data
	}
	atomic.AddInt32(&p.rewrote, 1)
	return out
}

func c08Mix(v uint64) uint64 {
	v += 0x9E3779B97F4A7C15
	v = (v ^ (v >> 30)) * 0xBF58476D1CE4E5B9
	v = (v ^ (v >> 27)) * 0x94D049BB133111EB
	return v ^ (v >> 31)
}

func TestVerifC08E2E(t *testing.T) {
	rec := verifkit.NewRecorder("C08", "e2e")
	defer rec.Flush()
	thru := filepath.Join(os.Getenv("VERIF_BIN"), "thru")
	if _, err := os.Stat(thru); err != nil {
		t.Skip("thru binary not built")
	}
	rapid.Check(t, func(rt *rapid.T) {
		// rapid's generators favour the first alternatives; with a handful of cases per run the
		// choices are made from a mixed draw instead (still a pure function of the draw)
		pick := c08Mix(rapid.Uint64().Draw(rt, "connections_and_order"))
		// files large enough that a transfer that uses a connection puts far more than the
		// authentication exchange on it
		tree := verifnet.GenTree(rt, 256<<10, verifnet.GenOpts{MaxFiles: 4, MinFiles: 2, MaxChunks: 8})
		tree.Nodes = append(tree.Nodes, verifnet.Node{Rel: "zz_bulk.bin", Size: 3<<20 + int(pick%1000), Seed: pick})
		dir := verifkit.ScratchDir(t, "c08e2e")
		defer os.RemoveAll(dir)
		root, err := tree.Materialize(filepath.Join(dir, "src"))
		if err != nil {
			rec.Class("not-run-materialize")
			return
		}
		// every case meets all three attacker behaviours, in a drawn order
		modes := []string{"terminate-extras", "terminate-all", "forward", "impersonate-receiver", "rogue-sender", "terminate-later-extras"}
		rot := int(pick % uint64(len(modes)))
		modes = append(modes[rot:], modes[:rot]...)
		for i, mode := range modes {
			conns := []int{2, 3, 4}[(pick/4+uint64(i))%3]
			if mode != "terminate-extras" && mode != "forward" {
				conns = []int{1, 2}[(pick/4)%2]
			}
			if mode == "terminate-later-extras" {
				conns = []int{3, 4}[(pick/4)%2] // the attacker leaves the first additional connection alone
			}
			if !c08E2ECase(rt, t, rec, thru, dir, root, tree, mode, conns, i) {
				return
			}
		}
	})
}

// c08E2ECase runs one host/join pair with the attacker in the given mode; false: a violation was recorded.
func c08E2ECase(rt *rapid.T, t *testing.T, rec *verifkit.Recorder, thru, dir, root string, tree verifnet.Tree, mode string, conns, idx int) bool {
	srv, err := startServer("--ws-connects-per-min", "0", "--session-creates-per-min", "0")
	if err != nil {
		rec.Class("not-run-server")
		return true
	}
	defer srv.stop()
	relay, err := newC08Relay(mode)
	if err != nil {
		rec.Class("not-run-relay")
		return true
	}
	defer relay.close()
	if mode == "rogue-sender" {
		relay.evilRoot = filepath.Join(dir, "planted")
		os.MkdirAll(filepath.Join(relay.evilRoot, "sub"), 0755)
		os.WriteFile(filepath.Join(relay.evilRoot, "planted.txt"), []byte(strings.Repeat("not from the host\n", 500)), 0644)
		os.WriteFile(filepath.Join(relay.evilRoot, "sub", "second.bin"), make([]byte, 100000), 0644)
	}
	proxy, err := newC08Proxy(srv.base, relay)
	if err != nil {
		rec.Class("not-run-proxy")
		return true
	}
	defer proxy.close()
	host, err := startHost(thru, srv.base, []string{root}, "--total-connections", fmt.Sprint(conns))
	if err != nil {
		rec.Class("not-run-host")
		rec.Note("host not started: %v", err)
		return true
	}
	defer host.stop()
	out := filepath.Join(dir, fmt.Sprintf("out%d", idx))
	os.MkdirAll(out, 0755)
	limit := 60 * time.Second
	switch mode {
	case "terminate-extras", "terminate-all", "terminate-later-extras":
		limit = 45 * time.Second // a join that waits for a connection that never authenticates is not judged
	case "impersonate-receiver":
		limit = 6 * time.Second // the receiver is never contacted and waits; what matters is what the sender does
	case "rogue-sender":
		limit = 12 * time.Second // the honest sender never arrives; what matters is what the receiver takes from the attacker
	}
	t0 := time.Now()
	status, jlog := runJoin(thru, proxy.base, host.code, out, limit)
	dur := time.Since(t0)
	rec.Eval()
	if mode != "forward" && mode != "rogue-sender" && status != 0 {
		// the receiver has given up; the attacker keeps its half towards the sender open for a
		// while and goes on reading whatever the sender still sends
		for i := 0; i < 25 && atomic.LoadInt64(&relay.maxDirBytes) <= c08AuthSlack; i++ {
			time.Sleep(100 * time.Millisecond)
		}
	}
	fw, term, br := atomic.LoadInt32(&relay.forwardedFlows), atomic.LoadInt32(&relay.terminatedFlows), atomic.LoadInt32(&relay.bridged)
	maxDir, total := atomic.LoadInt64(&relay.maxDirBytes), atomic.LoadInt64(&relay.totalBytes)
	desc := fmt.Sprintf("attacker=%s total-connections=%d tree %s | join status %d after %.1fs; flows forwarded untouched %d, terminated %d (second leg up for %d), most stream bytes in one direction of a terminated flow %d, all terminated flows %d",
		mode, conns, tree.Describe(), status, dur.Seconds(), fw, term, br, maxDir, total)
	if mode == "rogue-sender" {
		rn, _ := relay.rogueNote.Load().(string)
		desc += " | attacker as sender: " + rn
		if atomic.LoadInt32(&proxy.rewrote) == 0 || atomic.LoadInt32(&relay.rogueDialed) == 0 {
			rec.Class("not-run-path-not-taken")
			rec.Note("path not taken: %s\n%s", desc, tailOf(jlog, 600))
			return true
		}
		rec.Class("attacker=" + mode)
		got, _ := verifnet.Digest(out)
		if left := stripResume(got); len(left) > 0 || status == 0 {
			var names []string
			for _, e := range left {
				names = append(names, e.Rel)
			}
			rec.Fail(rt, "e2e:receiver-took-data-from-unauthenticated-sender", fmt.Sprintf("a peer without the join code dialed the receiver in the sender's place; `thru join` ended with status %d and its output directory holds %q | %s\n--- join log (tail) ---\n%s", status, names, desc, tailOf(jlog, 1200)))
			return false
		}
		rec.NonTrivial(fmt.Sprintf("%s|%d|%s", mode, conns, tree.Describe()))
		if rec.SampleWanted() {
			rec.Sample(map[string]any{"case": desc})
		}
		return true
	}
	if atomic.LoadInt32(&proxy.rewrote) == 0 || fw+term == 0 {
		// the peers never went through the attacker's port: nothing was tried
		rec.Class("not-run-path-not-taken")
		rec.Note("path not taken: %s\n%s", desc, tailOf(jlog, 600))
		return true
	}
	rec.Class("attacker=" + mode)
	if maxDir > c08AuthSlack {
		rec.Fail(rt, "e2e:data-on-connection-through-tls-terminating-relay",
			fmt.Sprintf("a flow whose two halves are different TLS sessions (the attacker in between does not hold the join code) carried %d stream bytes in one direction; the authentication exchange has 50 | %s\n--- join log (tail) ---\n%s\n--- host log (errors) ---\n%s",
				maxDir, desc, tailOf(jlog, 900), grepErrors(host.log.String())))
		return false
	}
	if status == 0 {
		got, derr := verifnet.Digest(out)
		if derr != nil {
			rec.Fail(rt, "e2e:output-unreadable", derr.Error()+" | "+desc)
			return false
		}
		if diff := verifnet.DiffDigests(tree.Expected(tree.Base), stripResume(got)); diff != "" {
			rec.Fail(rt, "e2e:tree-differs-after-success", diff+" | "+desc)
			return false
		}
		rec.Class(mode + "/join-ok")
	} else {
		rec.Class(mode + "/join-not-ok")
	}
	switch mode {
	case "forward":
		// control: an untouched path must work - otherwise the set-up, not the tool, is at fault
		if status != 0 {
			if status == -1 || joinNeverStarted(jlog) || strings.Contains(jlog, "timeout") || strings.Contains(jlog, "deadline exceeded") {
				rec.Class("control-not-judged-timeout")
				return true
			}
			rec.Fail(rt, "e2e:honest-peers-rejected", fmt.Sprintf("with every packet forwarded untouched `thru join` ended with status %d | %s\n--- join log (tail) ---\n%s\n--- host log (errors) ---\n%s", status, desc, tailOf(jlog, 1200), grepErrors(host.log.String())))
			return false
		}
	case "terminate-all", "impersonate-receiver":
		if status == 0 {
			rec.Fail(rt, "e2e:transfer-through-tls-terminating-relay", "`thru join` reported success although every flow between the peers was terminated by a relay without the join code | "+desc)
			return false
		}
	}
	if br > 0 {
		rec.NonTrivial(fmt.Sprintf("%s|%d|%s", mode, conns, tree.Describe()))
	}
	if rec.SampleWanted() {
		rec.Sample(map[string]any{"case": desc})
	}
	return true
}
