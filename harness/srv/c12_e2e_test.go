package verifsrv

import (
	"fmt"
	"os"
	"path/filepath"
	"regexp"
	"strconv"
	"sync"
	"testing"
	"time"

	"github.com/sheerbytes/sheerbytes/internal/verifkit"
	"github.com/sheerbytes/sheerbytes/internal/verifnet"
	"pgregory.net/rapid"
)

// ---- C12 (real binaries): more receivers than slots ------------------------------------------
//
// `thru host --max-receivers M` serves R > M receivers that join at (almost) the same time;
// the shared file is large enough for the transfers to overlap. Oracle: the host's own
// status lines never show more than M active transfers, and every receiver is served: each
// `thru join` exits 0 in bounded time with exactly the hosted tree (receivers that had to
// wait are started when a slot frees, nobody is forgotten).

var snapshotRe = regexp.MustCompile(`queued=(\d+) active=(\d+) done=(\d+) failed=(\d+)`)
var queuedRe = regexp.MustCompile(`Queued for transfer \(position (\d+), active=(\d+)/(\d+)\)`)

func TestVerifC12E2E(t *testing.T) {
	rec := verifkit.NewRecorder("C12", "e2e")
	defer rec.Flush()
	thru := filepath.Join(os.Getenv("VERIF_BIN"), "thru")
	if _, err := os.Stat(thru); err != nil {
		t.Skip("thru binary not built")
	}
	rapid.Check(t, func(rt *rapid.T) {
		maxRecv := rapid.IntRange(1, 2).Draw(rt, "max_receivers")
		receivers := maxRecv + rapid.IntRange(1, 2).Draw(rt, "extra_receivers")
		big := rapid.SampledFrom([]int{40 << 20, 96 << 20}).Draw(rt, "file_bytes")
		stagger := time.Duration(rapid.IntRange(0, 60).Draw(rt, "stagger_ms")) * time.Millisecond
		tree := verifnet.Tree{Base: "share", Nodes: []verifnet.Node{{Rel: "big.bin", Size: big, Seed: rapid.Uint64().Draw(rt, "seed")}, {Rel: "d", Dir: true}, {Rel: "d/small.txt", Size: 17, Seed: 3}}}
		dir := verifkit.ScratchDir(t, "c12e2e")
		defer os.RemoveAll(dir)
		root, err := tree.Materialize(filepath.Join(dir, "src"))
		if err != nil {
			rec.Class("not-run-materialize")
			return
		}
		srv, err := startServer("--ws-connects-per-min", "0", "--session-creates-per-min", "0")
		if err != nil {
			rec.Class("not-run-server")
			return
		}
		defer srv.stop()
		host, err := startHost(thru, srv.base, []string{root}, "--max-receivers", fmt.Sprint(maxRecv))
		if err != nil {
			rec.Class("not-run-host")
			rec.Note("host not started: %v", err)
			return
		}
		defer host.stop()
		type outcome struct {
			status int
			log    string
			dur    time.Duration
		}
		outs := make([]outcome, receivers)
		var wg sync.WaitGroup
		for i := 0; i < receivers; i++ {
			wg.Add(1)
			go func(i int) {
				defer wg.Done()
				time.Sleep(time.Duration(i) * stagger)
				out := filepath.Join(dir, fmt.Sprintf("out%d", i))
				os.MkdirAll(out, 0755)
				t0 := time.Now()
				st, lg := runJoin(thru, srv.base, host.code, out, 120*time.Second)
				outs[i] = outcome{st, lg, time.Since(t0)}
			}(i)
		}
		wg.Wait()
		rec.Eval()
		maxActive, maxQueued := 0, 0
		for _, m := range snapshotRe.FindAllStringSubmatch(host.log.String(), -1) {
			q, _ := strconv.Atoi(m[1])
			a, _ := strconv.Atoi(m[2])
			if a > maxActive {
				maxActive = a
			}
			if q > maxQueued {
				maxQueued = q
			}
		}
		// what the receivers were told when they were queued ("position p, active=a/m")
		for _, o := range outs {
			for _, m := range queuedRe.FindAllStringSubmatch(o.log, -1) {
				p, _ := strconv.Atoi(m[1])
				a, _ := strconv.Atoi(m[2])
				if a > maxActive {
					maxActive = a
				}
				if p >= 2 || a >= maxRecv {
					if maxQueued == 0 {
						maxQueued = 1
					}
				}
			}
		}
		desc := fmt.Sprintf("max-receivers=%d, %d receivers joining %s apart, file of %d MiB; host reported at most %d active and %d queued", maxRecv, receivers, stagger, big>>20, maxActive, maxQueued)
		if maxActive > maxRecv {
			rec.Fail(rt, "e2e:more-than-max-receivers", "the host's status lines show more simultaneous transfers than allowed | "+desc)
			return
		}
		for i, o := range outs {
			if o.status != 0 {
				if joinNeverStarted(o.log) {
					rec.Class("not-run-join-never-reached-the-session")
					rec.Note("receiver %d printed nothing but its banner (status %d): %s", i+1, o.status, desc)
					return
				}
				sig := "e2e:receiver-not-served"
				if o.status == -1 {
					sig = "e2e:receiver-never-started-or-finished"
				}
				rec.Fail(rt, sig, fmt.Sprintf("receiver %d of %d ended with status %d after %.1fs | %s\n--- join log (tail) ---\n%s\n--- host log (errors) ---\n%s", i+1, receivers, o.status, o.dur.Seconds(), desc, tailOf(o.log, 1200), grepErrors(host.log.String())))
				return
			}
			got, derr := verifnet.Digest(filepath.Join(dir, fmt.Sprintf("out%d", i)))
			if derr != nil {
				rec.Fail(rt, "e2e:output-unreadable", derr.Error()+" | "+desc)
				return
			}
			if diff := verifnet.DiffDigests(tree.Expected(tree.Base), stripResume(got)); diff != "" {
				rec.Fail(rt, "e2e:tree-differs", fmt.Sprintf("receiver %d: %s | %s", i+1, diff, desc))
				return
			}
		}
		if maxQueued > 0 {
			rec.Class("receivers-had-to-wait")
			rec.NonTrivial(fmt.Sprintf("%d/%d/%s/%d", maxRecv, receivers, stagger, big))
		}
		if rec.SampleWanted() {
			rec.Sample(map[string]any{"case": desc})
		}
	})
}
