package verifsrv

import (
	"context"
	"crypto/hmac"
	"crypto/sha1"
	"encoding/base64"
	"fmt"
	"io"
	"log/slog"
	"strconv"
	"strings"
	"sync"
	"testing"
	"time"

	"github.com/sheerbytes/sheerbytes/internal/app"
	"github.com/sheerbytes/sheerbytes/internal/clienthttp"
	"github.com/sheerbytes/sheerbytes/internal/ice"
	"github.com/sheerbytes/sheerbytes/internal/verifkit"
	"github.com/sheerbytes/sheerbytes/internal/wsclient"
	"github.com/sheerbytes/sheerbytes/pkg/protocol"
	"pgregory.net/rapid"
)

// ---- C16: the real client functions against generated server configurations ------------

type c16Flag struct {
	Name  string
	Small string
}

// "small" = the smallest value whose documented meaning still allows one session with a host and a receiver
var c16Flags = []c16Flag{
	{"max-sessions", "1"}, {"max-receivers-per-sender", "1"}, {"max-ws-connections", "2"}, {"max-message-bytes", "4096"},
	{"ws-connects-per-min", "60"}, {"ws-connects-burst", "2"}, {"ws-msgs-per-sec", "5"}, {"ws-msgs-burst", "2"},
	{"session-creates-per-min", "60"}, {"session-creates-burst", "1"}, {"ws-idle-timeout", "1s"}, {"session-timeout", "2s"},
}

type c16Turn struct {
	Spelling string // server flag value template, HOSTPORT is substituted
	Host     string
	TLS, TCP bool
	SNI      string
	Insecure bool
}

var c16Turns = []c16Turn{
	{Spelling: "turn:HOSTPORT"}, {Spelling: "turn://HOSTPORT"}, {Spelling: "HOSTPORT"},
	{Spelling: "turns:HOSTPORT", TLS: true, TCP: true}, {Spelling: "turns://HOSTPORT", TLS: true, TCP: true},
	{Spelling: "turn:HOSTPORT?transport=tcp", TCP: true}, {Spelling: "turn:HOSTPORT?transport=udp"},
	{Spelling: "turns:HOSTPORT?servername=relay.example.org", TLS: true, TCP: true, SNI: "relay.example.org"},
	{Spelling: "turns:HOSTPORT?insecure=1", TLS: true, TCP: true, Insecure: true},
	{Spelling: "turn://HOSTPORT?transport=tcp&servername=sni.example", TCP: true, SNI: "sni.example"},
}
var c16Hosts = []string{"turn.example.org:3478", "192.0.2.10:5349", "[2001:db8::1]:3478", "relay-1.example.org:443"}
var c16Secrets = []string{"s3cret", "a+b/c=d==", "with space", "ü-secret", "0123456789abcdef0123456789abcdef"}
var c16PeerIDs = []string{"0123456789abcdef", "alice+bob", "a@b:c/d?e#f%g&h=i+j", "node&eu=1", "sp ace", "ünï", "x;y", "per%41cent", "colon:id", "q?x=1#frag"}

type c16Config struct {
	Flags    map[string]string // flag -> value ("" = default)
	Turn     *c16Turn
	TurnHost string
	Secret   string
	TTL      string
	HostID   string
	RecvID   string
}

func (c c16Config) args() []string {
	var a []string
	for _, f := range c16Flags {
		if v, ok := c.Flags[f.Name]; ok && v != "" {
			a = append(a, "--"+f.Name, v)
		}
	}
	if c.Turn != nil {
		a = append(a, "--turn-server", strings.ReplaceAll(c.Turn.Spelling, "HOSTPORT", c.TurnHost), "--turn-static-auth-secret", c.Secret)
		if c.TTL != "" {
			a = append(a, "--turn-cred-ttl", c.TTL)
		}
	}
	return a
}

func (c c16Config) String() string {
	return fmt.Sprintf("thruserv %s | host peer id %q receiver peer id %q", strings.Join(c.args(), " "), c.HostID, c.RecvID)
}

func genC16(t *rapid.T) c16Config {
	c := c16Config{Flags: map[string]string{}}
	for _, f := range c16Flags {
		choices := []string{"default", "default", "small", "zero"}
		if strings.HasSuffix(f.Name, "-burst") {
			// a burst is the depth of a token bucket, not a limit that 0 disables (the server clamps it
			// to 1); host and receiver share one IP here, so bursts below 2 are only combined with a
			// disabled rate
			choices = []string{"default", "default", "small"}
		}
		switch rapid.SampledFrom(choices).Draw(t, "flag_"+f.Name) {
		case "small":
			c.Flags[f.Name] = f.Small
		case "zero":
			c.Flags[f.Name] = "0"
		}
	}
	if rapid.Bool().Draw(t, "turn") {
		tr := rapid.SampledFrom(c16Turns).Draw(t, "turn_spelling")
		c.Turn = &tr
		c.TurnHost = rapid.SampledFrom(c16Hosts).Draw(t, "turn_host")
		c.Secret = rapid.SampledFrom(c16Secrets).Draw(t, "turn_secret")
		c.TTL = rapid.SampledFrom([]string{"", "1h", "90s"}).Draw(t, "turn_ttl")
	}
	c.HostID = rapid.SampledFrom(c16PeerIDs).Draw(t, "host_id")
	c.RecvID = rapid.SampledFrom(c16PeerIDs).Draw(t, "recv_id")
	if c.RecvID == c.HostID {
		c.RecvID += "-r"
	}
	return c
}

// c16Client connects with the production client code and collects envelopes.
type c16Client struct {
	conn *wsclient.Conn
	mu   sync.Mutex
	envs []protocol.Envelope
}

func c16Dial(base, code, peerID, role string) (*c16Client, error) {
	wsURL, err := app.VerifBuildWebSocketURL(base, code, peerID, role, 0)
	if err != nil {
		return nil, fmt.Errorf("build url: %w", err)
	}
	ctx, cancel := context.WithTimeout(context.Background(), 5*time.Second)
	defer cancel()
	conn, err := wsclient.Dial(ctx, wsURL, slog.New(slog.NewTextHandler(io.Discard, nil)))
	if err != nil {
		return nil, fmt.Errorf("dial %s: %w", wsURL, err)
	}
	c := &c16Client{conn: conn}
	go conn.ReadLoop(context.Background(), func(env protocol.Envelope) {
		c.mu.Lock()
		c.envs = append(c.envs, env)
		c.mu.Unlock()
	})
	return c, nil
}

func (c *c16Client) wait(timeout time.Duration, pred func(protocol.Envelope) bool) (protocol.Envelope, bool) {
	deadline := time.Now().Add(timeout)
	for {
		c.mu.Lock()
		for _, e := range c.envs {
			if pred(e) {
				c.mu.Unlock()
				return e, true
			}
		}
		c.mu.Unlock()
		if time.Now().After(deadline) {
			return protocol.Envelope{}, false
		}
		time.Sleep(500 * time.Microsecond)
	}
}

func c16Check(c c16Config) (sig, detail string) {
	srv, err := startServer(c.args()...)
	if err != nil {
		return "server-start", err.Error()
	}
	defer srv.stop()
	ctx, cancel := context.WithTimeout(context.Background(), 8*time.Second)
	defer cancel()
	sid, code, exp, err := clienthttp.CreateSession(ctx, srv.base, 0)
	if err != nil {
		s := "create-session-fails"
		if c.Flags["session-timeout"] == "0" && strings.Contains(err.Error(), "expires_at") {
			s = "create-session-fails-without-expires_at"
		}
		return s, fmt.Sprintf("clienthttp.CreateSession: %v", err)
	}
	if sid == "" || len(code) != 8 {
		return "create-session-bad-result", fmt.Sprintf("session id %q join code %q", sid, code)
	}
	if !strings.Contains(srv.logTextAll(), "session_id="+sid+" join_code="+code) {
		return "create-session-bad-result", fmt.Sprintf("server did not log session %s / %s", sid, code)
	}
	if c.Flags["session-timeout"] != "0" && exp.IsZero() {
		return "create-session-bad-result", "no expiry returned although a session lifetime is configured"
	}
	host, err := c16Dial(srv.base, code, c.HostID, "sender")
	if err != nil {
		return "host-cannot-connect", err.Error()
	}
	closeHost := sync.OnceFunc(func() { host.conn.Close() })
	defer closeHost()
	isList := func(e protocol.Envelope) bool { return e.Type == protocol.TypePeerList }
	le, ok := host.wait(3*time.Second, isList)
	if !ok {
		return "host-no-peer-list", "the host got no peer_list"
	}
	var pl protocol.PeerList
	le.DecodePayload(&pl)
	found := false
	for _, p := range pl.Peers {
		if p.PeerID == c.HostID && p.Role == "sender" {
			found = true
		}
	}
	if !found {
		return "peer-id-not-preserved", fmt.Sprintf("the host connected as %q but the server lists %+v", c.HostID, pl.Peers)
	}
	recv, err := c16Dial(srv.base, code, c.RecvID, "receiver")
	if err != nil {
		return "receiver-cannot-connect", err.Error()
	}
	closeRecv := sync.OnceFunc(func() { recv.conn.Close() })
	defer closeRecv()
	je, ok := host.wait(3*time.Second, func(e protocol.Envelope) bool {
		if e.Type != protocol.TypePeerJoined {
			return false
		}
		var pj protocol.PeerJoined
		e.DecodePayload(&pj)
		return pj.Peer.Role == "receiver"
	})
	if !ok {
		return "host-no-peer-joined", "the host was not told that the receiver joined"
	}
	var pj protocol.PeerJoined
	je.DecodePayload(&pj)
	if pj.Peer.PeerID != c.RecvID {
		return "peer-id-not-preserved", fmt.Sprintf("the receiver connected as %q, the host sees %q", c.RecvID, pj.Peer.PeerID)
	}
	if c.Turn != nil {
		for who, cl := range map[string]*c16Client{c.HostID: host, c.RecvID: recv} {
			te, ok := cl.wait(3*time.Second, func(e protocol.Envelope) bool { return e.Type == protocol.TypeTurnCredentials })
			if !ok {
				return "no-turn-credentials", fmt.Sprintf("%q got no turn_credentials although TURN issuing is on", who)
			}
			var tc protocol.TurnCredentials
			te.DecodePayload(&tc)
			if len(tc.Servers) != 1 {
				return "turn-server-count", fmt.Sprintf("%d servers minted for one configured", len(tc.Servers))
			}
			pt, err := ice.VerifParseTurnServer(tc.Servers[0])
			if err != nil {
				return "turn-url-unparseable", fmt.Sprintf("client cannot parse the minted URL %q: %v", tc.Servers[0], err)
			}
			parts := strings.SplitN(pt.Username, ":", 2)
			if len(parts) != 2 || parts[1] != who {
				return "turn-user-mismatch", fmt.Sprintf("minted for peer %q, client parses user %q (url %q)", who, pt.Username, tc.Servers[0])
			}
			expUnix, perr := strconv.ParseInt(parts[0], 10, 64)
			ttl := time.Hour
			if c.TTL != "" {
				ttl, _ = time.ParseDuration(c.TTL)
			}
			now := time.Now().Unix()
			if perr != nil || expUnix <= now || expUnix > now+int64(ttl.Seconds())+5 {
				return "turn-expiry-mismatch", fmt.Sprintf("user %q: expiry not in (now, now+%s]", pt.Username, ttl)
			}
			mac := hmac.New(sha1.New, []byte(c.Secret))
			mac.Write([]byte(pt.Username))
			if want := base64.StdEncoding.EncodeToString(mac.Sum(nil)); pt.Password != want {
				return "turn-secret-mismatch", fmt.Sprintf("client parses password %q, HMAC-SHA1(secret, user) is %q (url %q)", pt.Password, want, tc.Servers[0])
			}
			if pt.Addr != c.TurnHost {
				return "turn-endpoint-mismatch", fmt.Sprintf("configured %q, client parses endpoint %q (url %q)", c.TurnHost, pt.Addr, tc.Servers[0])
			}
			if pt.UseTLS != c.Turn.TLS || pt.UseTCP != c.Turn.TCP || pt.InsecureTLS != c.Turn.Insecure || (c.Turn.SNI != "" && pt.ServerName != c.Turn.SNI) {
				return "turn-options-mismatch", fmt.Sprintf("spelling %q: parsed tls=%v tcp=%v insecure=%v servername=%q", c.Turn.Spelling, pt.UseTLS, pt.UseTCP, pt.InsecureTLS, pt.ServerName)
			}
		}
	}
	// With the message rate limit disabled (0) a session must carry an ordinary signaling
	// exchange of any length: more messages than the burst allowance, all delivered in order.
	if c.Flags["ws-msgs-per-sec"] == "0" {
		burst := 100
		if v, ok := c.Flags["ws-msgs-burst"]; ok {
			burst, _ = strconv.Atoi(v)
		}
		n := burst + 25
		if n > 160 {
			n = 160
		}
		for i := 0; i < n; i++ {
			env, _ := protocol.NewEnvelope("x-verif-c16", protocol.NewMsgID(), map[string]int{"i": i})
			env.To = c.RecvID
			if err := host.conn.Send(env); err != nil {
				return "message-rate-zero-not-unlimited", fmt.Sprintf("--ws-msgs-per-sec 0: sending message %d of %d failed: %v", i+1, n, err)
			}
		}
		deadline := time.Now().Add(4 * time.Second)
		for {
			recv.mu.Lock()
			got := 0
			for _, e := range recv.envs {
				if e.Type == "x-verif-c16" {
					got++
				}
			}
			recv.mu.Unlock()
			if got >= n {
				break
			}
			if time.Now().After(deadline) {
				return "message-rate-zero-not-unlimited", fmt.Sprintf("--ws-msgs-per-sec 0 (documented: disabled), burst %d: only %d of %d messages from the host reached the receiver", burst, got, n)
			}
			time.Sleep(2 * time.Millisecond)
		}
	}
	// The next host: once this host and its receiver are gone, the server is as it was before
	// them, and another host can create a session - also when --max-sessions is as small as 1
	// and sessions never expire by time (--session-timeout 0). Skipped when a per-address
	// creation rate or burst is configured that a second creation within seconds may legitimately hit.
	_, burstSet := c.Flags["session-creates-burst"]
	if r, rateSet := c.Flags["session-creates-per-min"]; r == "0" || (!rateSet && !burstSet) {
		closeRecv()
		closeHost()
		var lastErr error
		deadline := time.Now().Add(4 * time.Second)
		for {
			cctx, ccancel := context.WithTimeout(context.Background(), 3*time.Second)
			_, code2, _, err := clienthttp.CreateSession(cctx, srv.base, 0)
			ccancel()
			if err == nil && len(code2) == 8 {
				break
			}
			lastErr = err
			if time.Now().After(deadline) {
				return "next-host-cannot-create-session", fmt.Sprintf("after the first host and its receiver had left, another host could not create a session for 4 s: %v", lastErr)
			}
			time.Sleep(100 * time.Millisecond)
		}
	}
	return "", ""
}

func (s *server) logTextAll() string {
	// the log reader goroutine may lag behind by a moment
	for i := 0; i < 50; i++ {
		s.logMu.Lock()
		t := strings.Join(s.logs, "\n")
		s.logMu.Unlock()
		if strings.Contains(t, "session created") {
			return t
		}
		time.Sleep(2 * time.Millisecond)
	}
	s.logMu.Lock()
	defer s.logMu.Unlock()
	return strings.Join(s.logs, "\n")
}

func TestVerifC16Configs(t *testing.T) {
	rec := verifkit.NewRecorder("C16", "configs")
	defer rec.Flush()
	judge := func(f verifkit.Failer, c c16Config) {
		sig, detail := c16Check(c)
		rec.Eval()
		zero := 0
		for _, v := range c.Flags {
			if v == "0" {
				zero++
			}
		}
		for k, v := range c.Flags {
			if v == "0" {
				rec.Class("zero/" + k)
			}
		}
		if c.Turn != nil {
			rec.Class("turn/" + c.Turn.Spelling)
		}
		if sig != "" {
			rec.Fail(f, sig, detail+" | "+c.String())
			return
		}
		escaping := strings.ContainsAny(c.HostID+c.RecvID, "@:/?#%&=+ ;ü")
		if zero > 0 || (c.Turn != nil && c.Turn.Spelling != "turn:HOSTPORT") || escaping {
			rec.NonTrivial(c.String())
		}
		if rec.SampleWanted() {
			rec.Sample(c.String())
		}
	}
	// every flag alone at small and at 0 (covering set), sharded
	sh, nsh := verifkit.Shard()
	k := 0
	for _, f := range c16Flags {
		for _, v := range []string{f.Small, "0"} {
			if v == "0" && strings.HasSuffix(f.Name, "-burst") {
				continue
			}
			k++
			if k%nsh != sh {
				continue
			}
			judge(t, c16Config{Flags: map[string]string{f.Name: v}, HostID: c16PeerIDs[k%len(c16PeerIDs)], RecvID: c16PeerIDs[(k+3)%len(c16PeerIDs)]})
		}
	}
	rapid.Check(t, func(rt *rapid.T) { judge(rt, genC16(rt)) })
}
