package transfer

import (
	"fmt"
	"sort"
	"strings"
	"testing"

	"github.com/sheerbytes/sheerbytes/internal/verifkit"
	"github.com/sheerbytes/sheerbytes/pkg/manifest"
	"pgregory.net/rapid"
)

// ---- C17 (white box): the per-file dispatch state machine ---------------------------
//
// The real sendFileState is driven by an interleaving explorer. Atomic steps are the
// ones the sender's goroutines perform under state.mu:
//   take(w)   worker w asks for work: nextChunkToSend(); if none, trySendEnd()
//   finish(w) worker w finished writing its chunk: markChunkDone()
//   R1        the resume report arrived and needs verification: verifyPending = true
//   R2        the plan (bitmap, forceSendFrom) is installed
//   V         the verification verdict is stored (match, or mismatch -> resendPending)
// R1 < R2 and R1 < V; everything else interleaves freely (the report may arrive after
// the 300 ms grace period, i.e. while workers are already taking chunks).

type c17Cfg struct {
	N        int    // chunks
	W        int    // workers
	Bitmap   uint32 // chunks the receiver reports as present
	Tail     uint32
	Report   bool // a resume report arrives at all
	Mismatch bool // verdict
	Unknown  bool // receiver could not hash (LastVerifiedHash unknown): no verification
}

func (c c17Cfg) String() string {
	return fmt.Sprintf("chunks=%d workers=%d bitmap=%0*b tail=%d report=%v mismatch=%v hashUnknown=%v", c.N, c.W, c.N, c.Bitmap, c.Tail, c.Report, c.Mismatch, c.Unknown)
}

// plan derives what applyResumeInfo installs for this configuration (reference copy of
// the documented policy: verified chunk = highest reported chunk; everything from
// verified+1-tail on is sent again unless the file is complete).
func (c c17Cfg) plan() (v uint32, forceSendFrom uint32, verifyNeeded bool, hasPlan bool) {
	if !c.Report || c.Bitmap == 0 || c.N == 0 {
		return 0, 0, false, false
	}
	total := uint32(c.N)
	for i := c.N - 1; i >= 0; i-- {
		if c.Bitmap&(1<<uint(i)) != 0 {
			v = uint32(i)
			break
		}
	}
	forceSendFrom = v + 1
	all := c.Bitmap == (1<<uint(c.N))-1
	if !all && c.Tail > 0 {
		if c.Tail >= forceSendFrom {
			forceSendFrom = 0
		} else {
			forceSendFrom -= c.Tail
		}
	}
	if c.Unknown {
		tail := c.Tail
		if tail == 0 {
			tail = 1
		}
		minForce := uint32(0)
		if total > tail {
			minForce = total - tail
		}
		if forceSendFrom > minForce {
			forceSendFrom = minForce
		}
	}
	return v, forceSendFrom, !c.Unknown, true
}

type c17Send struct {
	idx     uint32
	afterR2 bool
	resend  bool
}

type c17Sim struct {
	cfg            c17Cfg
	st             *sendFileState
	hold           []int // per worker: index into sends of the chunk it is writing, -1 idle
	r1, r2         bool
	v              bool
	sends          []c17Send
	done           []bool // per send: written
	ends           int
	viol           string
	vChunk         uint32
	force          uint32
	verify         bool
	hasPlan        bool
	reportAfterEnd bool
	tailDouble     bool
}

func newC17Sim(cfg c17Cfg) *c17Sim {
	item := manifest.FileItem{RelPath: "f", Size: int64(cfg.N) * 10, ID: "id"}
	st := &sendFileState{key: 1, item: item, chunkSize: 10, totalChunks: uint32(cfg.N), readyCh: make(chan struct{})}
	s := &c17Sim{cfg: cfg, st: st, hold: make([]int, cfg.W)}
	for i := range s.hold {
		s.hold[i] = -1
	}
	s.vChunk, s.force, s.verify, s.hasPlan = cfg.plan()
	return s
}

func (s *c17Sim) fail(sig, msg string) {
	if s.viol == "" {
		s.viol = sig + "|" + msg
	}
}

func (s *c17Sim) emitEnd(how string) {
	s.ends++
	if s.ends > 1 {
		s.fail("fileend-twice", "FileEnd emitted twice ("+how+")")
	}
	for w, h := range s.hold {
		if h >= 0 {
			s.fail("fileend-before-chunk-written", fmt.Sprintf("FileEnd (%s) while worker %d still writes chunk %d", how, w, s.sends[h].idx))
		}
	}
	if s.r1 && s.verify && !s.v {
		s.fail("fileend-before-verdict", "FileEnd ("+how+") while the verification verdict is pending")
	}
	if s.v && s.cfg.Mismatch && !s.reportAfterEnd {
		ok := false
		for i, sd := range s.sends {
			if sd.resend && s.done[i] {
				ok = true
			}
		}
		if !ok {
			s.fail("fileend-before-resend", "FileEnd ("+how+") although the re-send of the chunk that failed verification has not gone out")
		}
	}
}

// step applies one atomic step; returns whether anything observable changed.
func (s *c17Sim) step(kind byte, w int) bool {
	switch kind {
	case 't':
		s.st.mu.Lock()
		wasResend := s.st.resendPending
		s.st.mu.Unlock()
		idx, size, ok := s.st.nextChunkToSend()
		if ok {
			if size != 10 {
				s.fail("chunk-length", fmt.Sprintf("chunk %d handed out with length %d", idx, size))
			}
			if s.ends > 0 {
				s.fail("chunk-after-fileend", fmt.Sprintf("chunk %d handed out after FileEnd", idx))
			}
			s.sends = append(s.sends, c17Send{idx: idx, afterR2: s.r2, resend: wasResend})
			s.done = append(s.done, false)
			s.hold[w] = len(s.sends) - 1
			return true
		}
		if s.st.trySendEnd() {
			s.emitEnd("idle worker")
			return true
		}
		return false
	case 'f':
		s.done[s.hold[w]] = true
		s.hold[w] = -1
		if s.st.markChunkDone() {
			s.emitEnd("last finishing worker")
		}
		return true
	case '1':
		s.r1 = true
		s.reportAfterEnd = s.ends > 0
		if s.verify {
			s.st.mu.Lock()
			s.st.verifyPending = true
			s.st.mu.Unlock()
		}
		return true
	case '2':
		s.r2 = true
		bm := NewBitmap(s.cfg.N)
		for i := 0; i < s.cfg.N; i++ {
			if s.cfg.Bitmap&(1<<uint(i)) != 0 {
				bm.Set(i)
			}
		}
		s.st.mu.Lock()
		s.st.plan = &resumePlan{bitmap: bm, forceSendFrom: s.force, totalChunks: uint32(s.cfg.N), verifiedChunk: s.vChunk}
		s.st.mu.Unlock()
		return true
	case 'v':
		s.v = true
		s.st.mu.Lock()
		if s.cfg.Mismatch {
			s.st.resendChunk = s.vChunk
			s.st.resendPending = true
		}
		s.st.verifyPending = false
		s.st.mu.Unlock()
		return true
	}
	return false
}

type c17Step struct {
	kind byte
	w    int
}

func (s *c17Sim) enabled() []c17Step {
	var out []c17Step
	seenIdle := false
	for w, h := range s.hold {
		if h >= 0 {
			out = append(out, c17Step{'f', w})
		} else if !seenIdle { // idle workers are interchangeable
			out = append(out, c17Step{'t', w})
			seenIdle = true
		}
	}
	if s.hasPlan {
		if !s.r1 {
			out = append(out, c17Step{'1', 0})
		} else {
			if !s.r2 {
				out = append(out, c17Step{'2', 0})
			}
			if s.verify && !s.v {
				out = append(out, c17Step{'v', 0})
			}
		}
	}
	return out
}

func (s *c17Sim) key() string {
	st := s.st
	var sb strings.Builder
	fmt.Fprintf(&sb, "%d/%d/%v/%v/%v/%v/%d/%v%v%v/%d|", st.nextChunk, st.inFlight, st.scheduleDone, st.endSent, st.verifyPending, st.resendPending, st.resendChunk, s.r1, s.r2, s.v, s.ends)
	held := []string{}
	for _, h := range s.hold {
		if h >= 0 {
			held = append(held, fmt.Sprint(s.sends[h].idx, s.sends[h].resend))
		}
	}
	sort.Strings(held)
	sb.WriteString(strings.Join(held, ","))
	sb.WriteString("|")
	hist := []string{}
	for i, sd := range s.sends {
		hist = append(hist, fmt.Sprint(sd.idx, sd.afterR2, sd.resend, s.done[i]))
	}
	sort.Strings(hist)
	sb.WriteString(strings.Join(hist, ","))
	return sb.String()
}

// final checks the end-state oracle of a maximal run.
func (s *c17Sim) final() {
	if s.ends == 0 {
		s.fail("no-fileend", "every step has run and all workers are idle, but FileEnd was never emitted")
		return
	}
	for i := 0; i < s.cfg.N; i++ {
		idx := uint32(i)
		var total, normalBefore, after, resends int
		for _, sd := range s.sends {
			if sd.idx != idx {
				continue
			}
			total++
			if sd.resend {
				resends++
			} else if sd.afterR2 {
				after++
			} else {
				normalBefore++
			}
		}
		present := s.hasPlan && s.cfg.Bitmap&(1<<uint(i)) != 0
		failed := present && s.verify && s.cfg.Mismatch && idx == s.vChunk
		switch {
		case !present:
			if total != 1 {
				s.fail("needed-chunk-not-exactly-once", fmt.Sprintf("chunk %d (needed by the receiver) was handed out %d times", i, total))
			}
		case failed:
			// the verdict must cause exactly one re-send (unless the report only arrived after
			// the file had been sent completely); a forced-tail chunk may additionally go out
			// once through the normal schedule, which the statement does not forbid
			if s.reportAfterEnd {
				if resends != 0 {
					s.fail("chunk-after-fileend", fmt.Sprintf("chunk %d re-sent although the report arrived after FileEnd", i))
				}
			} else if resends != 1 {
				s.fail("failed-chunk-not-resent-exactly-once", fmt.Sprintf("chunk %d failed verification; the verdict caused %d re-sends (scheduled sends: %d before / %d after the report)", i, resends, normalBefore, after))
			}
			if after+normalBefore > 1 {
				s.fail("chunk-handed-out-twice", fmt.Sprintf("chunk %d handed out %d times by the normal schedule", i, after+normalBefore))
			}
			if resends == 1 && after+normalBefore == 1 {
				s.tailDouble = true
			}
		case idx < s.force:
			if after+resends != 0 {
				s.fail("present-chunk-sent-after-report", fmt.Sprintf("chunk %d was reported present below the verification point but handed out %d times after the report was known", i, after+resends))
			}
			if total > 1 {
				s.fail("chunk-handed-out-twice", fmt.Sprintf("chunk %d handed out %d times", i, total))
			}
		default:
			if total > 1 {
				s.fail("chunk-handed-out-twice", fmt.Sprintf("chunk %d (forced tail) handed out %d times", i, total))
			}
		}
	}
}

// c17Explore enumerates all interleavings of a configuration (DFS with state memoisation;
// states are rebuilt by replaying the step prefix). Returns states, terminal runs and the first violation.
func c17Explore(cfg c17Cfg, limit int) (states, terminals int, viol string, trace []c17Step) {
	seen := map[string]bool{}
	var dfs func(prefix []c17Step) bool
	replay := func(prefix []c17Step) *c17Sim {
		s := newC17Sim(cfg)
		for _, st := range prefix {
			s.step(st.kind, st.w)
		}
		return s
	}
	dfs = func(prefix []c17Step) bool {
		s := replay(prefix)
		if s.viol != "" {
			viol, trace = s.viol, append([]c17Step(nil), prefix...)
			return true
		}
		k := s.key()
		if seen[k] {
			return false
		}
		seen[k] = true
		states++
		if limit > 0 && states > limit {
			return false
		}
		progressed := false
		for _, st := range s.enabled() {
			// a take that finds nothing and emits nothing is a stutter step: skip it
			if st.kind == 't' {
				probe := replay(prefix)
				if !probe.step('t', st.w) {
					continue
				}
			}
			progressed = true
			if dfs(append(append([]c17Step(nil), prefix...), st)) {
				return true
			}
		}
		if !progressed {
			terminals++
			s.final()
			if s.viol != "" {
				viol, trace = s.viol, append([]c17Step(nil), prefix...)
				return true
			}
		}
		return false
	}
	dfs(nil)
	return
}

func c17Trace(tr []c17Step) string {
	var parts []string
	for _, s := range tr {
		switch s.kind {
		case 't':
			parts = append(parts, fmt.Sprintf("take(w%d)", s.w))
		case 'f':
			parts = append(parts, fmt.Sprintf("finish(w%d)", s.w))
		case '1':
			parts = append(parts, "report:verifyPending")
		case '2':
			parts = append(parts, "report:planInstalled")
		case 'v':
			parts = append(parts, "verdict")
		}
	}
	return strings.Join(parts, " ")
}

func c17NonTrivial(cfg c17Cfg) bool {
	return cfg.W >= 2 && cfg.Report && cfg.Bitmap != 0
}

func TestVerifC17StateMachine(t *testing.T) {
	rec := verifkit.NewRecorder("C17", "statemachine")
	defer rec.Flush()
	maxN, maxW := 4, 2
	if verifkit.Thorough() {
		maxN, maxW = 6, 3
	}
	sh, nsh := verifkit.Shard()
	k := 0
	var totalStates, totalTerm int
	for n := 0; n <= maxN; n++ {
		for w := 1; w <= maxW; w++ {
			for bm := uint32(0); bm < 1<<uint(n); bm++ {
				for _, tail := range []uint32{0, 1, 2} {
					for _, mode := range []int{0, 1, 2, 3} { // no report, match, mismatch, hash unknown
						if bm == 0 && (mode != 0 || tail != 0) {
							continue // without reported chunks there is no plan: one configuration is enough
						}
						if mode == 0 && (tail != 0) {
							continue
						}
						k++
						if k%nsh != sh {
							continue
						}
						cfg := c17Cfg{N: n, W: w, Bitmap: bm, Tail: tail, Report: mode != 0, Mismatch: mode == 2, Unknown: mode == 3}
						states, terms, viol, trace := c17Explore(cfg, 0)
						totalStates += states
						totalTerm += terms
						rec.EvalN(int64(terms))
						rec.Class(fmt.Sprintf("mode-%d", mode))
						if viol != "" {
							parts := strings.SplitN(viol, "|", 2)
							rec.Fail(t, parts[0], fmt.Sprintf("%s | configuration: %s | interleaving: %s", parts[1], cfg, c17Trace(trace)))
							continue
						}
						if c17NonTrivial(cfg) {
							rec.NonTrivial(cfg.String())
						}
						if rec.SampleWanted() && k%53 == 0 {
							rec.Sample(map[string]any{"configuration": cfg.String(), "states": states, "complete_interleavings_to_terminal_states": terms})
						}
					}
				}
			}
		}
	}
	rec.Extra("states", totalStates)
	rec.Extra("terminal_states", totalTerm)
	rec.Extra("bound", fmt.Sprintf("chunks 0..%d, workers 1..%d, all bitmaps, tail 0..2, verdict {none, match, mismatch, hash unknown}: every interleaving of take/finish/report/verdict steps", maxN, maxW))
	rec.SetExhaustive(true)
}

// TestVerifC17Random samples larger configurations than the exhaustive bound with random schedules.
func TestVerifC17Random(t *testing.T) {
	rec := verifkit.NewRecorder("C17", "statemachine-random")
	defer rec.Flush()
	rapid.Check(t, func(rt *rapid.T) {
		n := rapid.IntRange(1, 14).Draw(rt, "chunks")
		cfg := c17Cfg{N: n, W: rapid.IntRange(1, 3).Draw(rt, "workers"), Bitmap: rapid.Uint32Range(0, 1<<uint(n)-1).Draw(rt, "bitmap"),
			Tail: uint32(rapid.IntRange(0, 3).Draw(rt, "tail"))}
		mode := rapid.IntRange(0, 3).Draw(rt, "mode")
		cfg.Report, cfg.Mismatch, cfg.Unknown = mode != 0, mode == 2, mode == 3
		s := newC17Sim(cfg)
		var trace []c17Step
		for steps := 0; steps < 400; steps++ {
			en := s.enabled()
			var real []c17Step
			for _, st := range en {
				real = append(real, st)
			}
			if len(real) == 0 {
				break
			}
			st := real[rapid.IntRange(0, len(real)-1).Draw(rt, "choice")]
			changed := s.step(st.kind, st.w)
			trace = append(trace, st)
			if s.viol != "" {
				break
			}
			if !changed {
				// idle take found nothing: terminal if nothing else is enabled
				only := true
				for _, o := range en {
					if o.kind != 't' {
						only = false
					}
				}
				if only {
					break
				}
			}
		}
		if s.viol == "" {
			s.final()
		}
		rec.Eval()
		if s.viol != "" {
			parts := strings.SplitN(s.viol, "|", 2)
			rec.Fail(rt, parts[0], fmt.Sprintf("%s | configuration: %s | interleaving: %s", parts[1], cfg, c17Trace(trace)))
			return
		}
		if c17NonTrivial(cfg) {
			rec.NonTrivial(cfg.String() + c17Trace(trace))
		}
	})
}
