package transfer

import (
	"bytes"
	"fmt"
	"os"
	"path/filepath"
	"testing"

	"github.com/sheerbytes/sheerbytes/internal/verifkit"
	"pgregory.net/rapid"
)

// ---- C06 (parser layer): damaged sidecar bytes are rejected or harmless ---------------

type c06Side struct {
	id     string
	size   int64
	chunk  uint32
	marked []uint32
}

func (c c06Side) String() string {
	return fmt.Sprintf("id=%q size=%d chunk=%d marked=%v", c.id, c.size, c.chunk, c.marked)
}

// c06Build writes a valid sidecar through the production code and returns its bytes.
func c06Build(dir string, c c06Side) ([]byte, *Sidecar, error) {
	p := filepath.Join(dir, "orig.sbxmap")
	os.Remove(p)
	sc, err := CreateSidecar(p, c.id, c.size, c.chunk)
	if err != nil {
		return nil, nil, err
	}
	for _, i := range c.marked {
		sc.MarkComplete(i)
	}
	if err := sc.Flush(); err != nil {
		return nil, nil, err
	}
	data, err := os.ReadFile(p)
	return data, sc, err
}

// c06Load runs LoadSidecar on bytes, converting a panic into an error string.
func c06Load(dir string, data []byte) (sc *Sidecar, err error, panicked string) {
	p := filepath.Join(dir, "probe.sbxmap")
	if werr := os.WriteFile(p, data, 0644); werr != nil {
		return nil, werr, ""
	}
	defer func() {
		if r := recover(); r != nil {
			panicked = fmt.Sprint(r)
		}
	}()
	sc, err = LoadSidecar(p)
	return sc, err, ""
}

func c06Same(a, b *Sidecar) bool {
	return a.FileID == b.FileID && a.FileSize == b.FileSize && a.ChunkSize == b.ChunkSize && a.TotalChunks == b.TotalChunks &&
		a.bitmap.LenBits() == b.bitmap.LenBits() && bytes.Equal(a.bitmap.Marshal(), b.bitmap.Marshal())
}

// c06HugeAlloc reports whether LoadSidecar would allocate >= 64 MiB for these bytes
// because of the bitmap length prefix (it allocates before verifying the checksum). Such
// inputs are skipped and counted: they are rejected as well, but each costs seconds.
func c06HugeAlloc(data []byte) bool {
	if len(data) < 24 || string(data[:4]) != sidecarMagic || data[4] != 0 || data[5] != 1 {
		return false
	}
	idLen := int(data[22])<<8 | int(data[23])
	off := 24 + idLen
	if off+4 > len(data) {
		return false
	}
	n := uint32(data[off])<<24 | uint32(data[off+1])<<16 | uint32(data[off+2])<<8 | uint32(data[off+3])
	return n >= 1<<26
}

// c06CheckDamaged: a damaged image must be rejected, or, if accepted, equal the original in every field and bit.
func c06CheckDamaged(dir string, orig *Sidecar, data []byte, what string) (string, string) {
	sc, err, pan := c06Load(dir, data)
	if pan != "" {
		return "loadsidecar-panics", fmt.Sprintf("%s: LoadSidecar panicked: %s", what, pan)
	}
	if err != nil {
		return "", ""
	}
	if !c06Same(sc, orig) {
		return "damaged-sidecar-accepted", fmt.Sprintf("%s: accepted as id=%q size=%d chunk=%d total=%d bitmap=%x (original id=%q size=%d chunk=%d total=%d bitmap=%x)",
			what, sc.FileID, sc.FileSize, sc.ChunkSize, sc.TotalChunks, sc.bitmap.Marshal(), orig.FileID, orig.FileSize, orig.ChunkSize, orig.TotalChunks, orig.bitmap.Marshal())
	}
	return "", ""
}

func TestVerifC06Parser(t *testing.T) {
	rec := verifkit.NewRecorder("C06", "parser")
	defer rec.Flush()
	dir := verifkit.ScratchDir(t, "scratch")
	sh, nsh := verifkit.Shard()
	// (i) every single-bit flip and every truncation of generated valid sidecars
	fixed := []c06Side{
		{"0123456789abcdef", 1000, 100, []uint32{0, 1, 2, 5}},
		{"", 1, 1, []uint32{0}},
		{"x", 4096*9 + 1, 4096, []uint32{0, 3, 9}},
		{"0123456789abcdef0123456789abcdef01234567", 200 * 7, 7, []uint32{0, 1, 2, 3, 4, 5, 6, 7, 8, 64, 65, 199}},
		{"id", 0, 16, nil},
	}
	n := len(fixed)
	if verifkit.Thorough() {
		x := verifkit.XorShift(verifkit.Seed())
		for i := 0; i < 55; i++ {
			chunks := int(x.Next()%200) + 1
			c := c06Side{id: fmt.Sprintf("%016x", x.Next())[:int(x.Next()%17)], chunk: uint32(x.Next()%5000 + 1)}
			c.size = int64(chunks-1)*int64(c.chunk) + int64(x.Next()%uint64(c.chunk)) + 1
			for j := 0; j < chunks; j++ {
				if x.Next()%3 == 0 {
					c.marked = append(c.marked, uint32(j))
				}
			}
			fixed = append(fixed, c)
		}
		n = len(fixed)
	}
	enumerated := 0
	for ci, c := range fixed[:n] {
		if ci%nsh != sh {
			continue
		}
		data, orig, err := c06Build(dir, c)
		if err != nil {
			t.Fatalf("build %s: %v", c, err)
		}
		if sc, err, _ := c06Load(dir, data); err != nil || !c06Same(sc, orig) {
			t.Fatalf("valid sidecar does not load back: %v", err)
		}
		for bit := 0; bit < len(data)*8; bit++ {
			mut := append([]byte(nil), data...)
			mut[bit/8] ^= 1 << uint(bit%8)
			rec.Eval()
			enumerated++
			if sig, detail := c06CheckDamaged(dir, orig, mut, fmt.Sprintf("%s, bit %d of byte %d flipped", c, bit%8, bit/8)); sig == "skipped-huge-alloc" {
				rec.Class("excluded-huge-length-prefix")
			} else if sig != "" {
				rec.Fail(t, sig, detail)
			}
		}
		for cut := 0; cut < len(data); cut++ {
			rec.Eval()
			enumerated++
			if sig, detail := c06CheckDamaged(dir, orig, data[:cut], fmt.Sprintf("%s, truncated to %d of %d bytes", c, cut, len(data))); sig != "" {
				rec.Fail(t, sig, detail)
			}
		}
		rec.NonTrivial(c.String())
		rec.Class("sidecar-enumerated")
	}
	rec.Extra("flips_and_truncations_enumerated", enumerated)
	rec.SetExhaustive(true)
	// (ii) random garbage, valid prefix + garbage, spliced halves of two valid sidecars
	rapid.Check(t, func(rt *rapid.T) {
		gen := func(label string) c06Side {
			chunks := rapid.IntRange(1, 120).Draw(rt, label+"_chunks")
			c := c06Side{id: rapid.StringMatching(`[0-9a-f]{0,20}`).Draw(rt, label+"_id"), chunk: uint32(rapid.IntRange(1, 5000).Draw(rt, label+"_chunk"))}
			c.size = int64(chunks-1)*int64(c.chunk) + int64(rapid.IntRange(1, int(c.chunk)).Draw(rt, label+"_last"))
			bits := rapid.SliceOfN(rapid.Bool(), chunks, chunks).Draw(rt, label+"_bits")
			for i, b := range bits {
				if b {
					c.marked = append(c.marked, uint32(i))
				}
			}
			return c
		}
		a := gen("a")
		da, origA, err := c06Build(dir, a)
		if err != nil {
			rt.Fatalf("build: %v", err)
		}
		kind := rapid.SampledFrom([]string{"garbage", "prefix+garbage", "splice", "byte-edit", "swap-field"}).Draw(rt, "kind")
		var mut []byte
		switch kind {
		case "garbage":
			mut = rapid.SliceOfN(rapid.Byte(), 0, 200).Draw(rt, "bytes")
			if rapid.Bool().Draw(rt, "magic") && len(mut) >= 4 {
				copy(mut, "SBM2")
			}
		case "prefix+garbage":
			cut := rapid.IntRange(0, len(da)).Draw(rt, "cut")
			mut = append(append([]byte(nil), da[:cut]...), rapid.SliceOfN(rapid.Byte(), 1, 60).Draw(rt, "tail")...)
		case "splice":
			b := gen("b")
			db, _, err := c06Build(dir, b)
			if err != nil {
				rt.Fatalf("build: %v", err)
			}
			ca := rapid.IntRange(0, len(da)).Draw(rt, "cut_a")
			cb := rapid.IntRange(0, len(db)).Draw(rt, "cut_b")
			mut = append(append([]byte(nil), da[:ca]...), db[cb:]...)
			if bytes.Equal(mut, da) || bytes.Equal(mut, db) {
				rec.Class("splice-identity")
				return
			}
			// a splice equal to neither input may still be a valid sidecar of b's identity only by CRC collision
			sc, err, pan := c06Load(dir, mut)
			rec.Eval()
			rec.Class(kind)
			if pan != "" {
				rec.Fail(rt, "loadsidecar-panics", fmt.Sprintf("splice of %s and %s: %s", a, b, pan))
				return
			}
			if err == nil {
				ob, _, _ := c06Build(dir, b)
				_ = ob
				_, origB, _ := c06Build(dir, b)
				if !c06Same(sc, origA) && !c06Same(sc, origB) {
					rec.Fail(rt, "damaged-sidecar-accepted", fmt.Sprintf("splice of %s [:%d] and %s [%d:] accepted", a, ca, b, cb))
				}
			}
			rec.NonTrivial(fmt.Sprintf("splice/%d/%d/%d", len(da), ca, cb))
			return
		case "byte-edit":
			mut = append([]byte(nil), da...)
			k := rapid.IntRange(1, 4).Draw(rt, "edits")
			for i := 0; i < k; i++ {
				pos := rapid.IntRange(0, len(mut)-1).Draw(rt, "pos")
				mut[pos] = rapid.Byte().Draw(rt, "val")
			}
			if bytes.Equal(mut, da) {
				return
			}
		case "swap-field":
			// overwrite one header field with a boundary value, leaving the CRC stale
			mut = append([]byte(nil), da...)
			off := rapid.SampledFrom([]int{4, 6, 10, 18, 22}).Draw(rt, "field")
			val := rapid.SampledFrom([]byte{0x00, 0xff, 0x7f, 0x80}).Draw(rt, "fill")
			for i := off; i < off+2 && i < len(mut); i++ {
				mut[i] = val
			}
			if bytes.Equal(mut, da) {
				return
			}
		}
		rec.Eval()
		rec.Class(kind)
		if sig, detail := c06CheckDamaged(dir, origA, mut, fmt.Sprintf("%s, %s (%d bytes)", a, kind, len(mut))); sig == "skipped-huge-alloc" {
			rec.Class("excluded-huge-length-prefix")
			return
		} else if sig != "" {
			rec.Fail(rt, sig, detail)
			return
		}
		head := mut
		if len(head) > 24 {
			head = head[len(head)-24:]
		}
		rec.NonTrivial(fmt.Sprintf("%s/%d/%x", kind, len(mut), head))
		if rec.SampleWanted() {
			rec.Sample(map[string]any{"sidecar": a.String(), "damage": kind, "bytes": len(mut)})
		}
	})
}
