package transfer

import (
	"context"
	"encoding/binary"
	"fmt"
	"hash/crc32"
	"math/big"
	"os"
	"path/filepath"
	"sync"
	"testing"
	"time"

	"github.com/sheerbytes/sheerbytes/internal/verifkit"
	"github.com/sheerbytes/sheerbytes/pkg/manifest"
	"pgregory.net/rapid"
)

// ---- C19: chunk geometry -------------------------------------------------------

const c19MaxSize = int64(10) << 40 // 10 TiB

// refGeometry is the reference arithmetic (math/big, no fixed-width overflow).
type refGeometry struct {
	size int64
	c    uint32
	n    uint64 // number of chunks
	fits bool   // n fits the 32-bit wire field
}

func c19Ref(size int64, c uint32) refGeometry {
	s := big.NewInt(size)
	cc := new(big.Int).SetUint64(uint64(c))
	n := new(big.Int).Add(s, new(big.Int).Sub(cc, big.NewInt(1)))
	n.Div(n, cc)
	r := refGeometry{size: size, c: c}
	r.fits = n.Cmp(new(big.Int).SetUint64(1<<32-1)) <= 0
	if r.fits {
		r.n = n.Uint64()
	}
	return r
}

func (r refGeometry) lenAt(i uint64) uint64 {
	if i >= r.n {
		return 0
	}
	off := new(big.Int).Mul(new(big.Int).SetUint64(i), new(big.Int).SetUint64(uint64(r.c)))
	rem := new(big.Int).Sub(big.NewInt(r.size), off)
	if rem.Cmp(new(big.Int).SetUint64(uint64(r.c))) >= 0 {
		return uint64(r.c)
	}
	return rem.Uint64()
}

// c19CheckPure checks the pure sender/metadata arithmetic for one (size, chunk) pair.
// It returns a violation signature and detail, or "".
func c19CheckPure(size int64, c uint32, sidecarDir string) (string, string) {
	ref := c19Ref(size, c)
	if !ref.fits {
		return "", ""
	}
	if got := chunkTotal(size, c); uint64(got) != ref.n {
		return "sender-chunk-count", fmt.Sprintf("chunkTotal(size=%d, chunk=%d) = %d, reference %d", size, c, got, ref.n)
	}
	idxs := []uint64{}
	if ref.n <= 512 {
		for i := uint64(0); i < ref.n; i++ {
			idxs = append(idxs, i)
		}
	} else {
		// only indices the sender can actually be asked for (i < n): the statement is about
		// the tiles of the file, not about indices beyond its end
		cand := []uint64{0, 1, 2, ref.n / 2, ref.n - 3, ref.n - 2, ref.n - 1, 1<<31 - 1, 1 << 31}
		// where 32-bit arithmetic would wrap: chunks whose offset, or whose distance to the end
		// of the file, sits next to a multiple of 2^32
		for k := uint64(1); k <= 4; k++ {
			at := k << 32
			lo := at / uint64(c)
			cand = append(cand, lo-1, lo, lo+1)
			if uint64(size) > at {
				d := (uint64(size) - at) / uint64(c)
				cand = append(cand, d-1, d, d+1)
			}
		}
		for _, i := range cand {
			if i < ref.n {
				idxs = append(idxs, i)
			}
		}
	}
	sum := new(big.Int)
	for _, i := range idxs {
		if i > 1<<32-1 {
			continue
		}
		got := chunkSizeForIndex(size, c, uint32(i))
		want := ref.lenAt(i)
		if uint64(got) != want {
			return "sender-chunk-length", fmt.Sprintf("chunkSizeForIndex(size=%d, chunk=%d, idx=%d) = %d, reference %d (n=%d)", size, c, i, got, want, ref.n)
		}
		if got > c {
			return "sender-chunk-length", fmt.Sprintf("chunk longer than chunk size: size=%d chunk=%d idx=%d len=%d", size, c, i, got)
		}
		if i < ref.n {
			sum.Add(sum, new(big.Int).SetUint64(uint64(got)))
		}
	}
	if ref.n <= 512 {
		if sum.Cmp(big.NewInt(size)) != 0 {
			return "sender-tiling-sum", fmt.Sprintf("sum of chunk lengths %s != size %d (chunk=%d)", sum, size, c)
		}
	} else {
		// (n-1)*c + last == size
		tot := new(big.Int).Mul(new(big.Int).SetUint64(ref.n-1), new(big.Int).SetUint64(uint64(c)))
		tot.Add(tot, new(big.Int).SetUint64(uint64(chunkSizeForIndex(size, c, uint32(ref.n-1)))))
		if tot.Cmp(big.NewInt(size)) != 0 {
			return "sender-tiling-sum", fmt.Sprintf("(n-1)*c+last = %s != size %d (chunk=%d)", tot, size, c)
		}
	}
	if sidecarDir != "" && ref.n <= 1<<22 {
		sc, err := CreateSidecar(filepath.Join(sidecarDir, "g.sbxmap"), "id", size, c)
		if err != nil {
			return "sidecar-create-failed", fmt.Sprintf("CreateSidecar(size=%d, chunk=%d): %v", size, c, err)
		}
		if uint64(sc.TotalChunks) != ref.n {
			sig := "sidecar-chunk-count"
			if size == 0 && sc.TotalChunks == 1 {
				sig = "sidecar-totalchunks-1-for-empty-file"
			}
			return sig, fmt.Sprintf("CreateSidecar(size=%d, chunk=%d).TotalChunks = %d, sender/reference %d", size, c, sc.TotalChunks, ref.n)
		}
		if sc.bitmap.LenBits() != int(ref.n) {
			return "sidecar-bitmap-bits", fmt.Sprintf("bitmap bits %d != %d", sc.bitmap.LenBits(), ref.n)
		}
	}
	return "", ""
}

// c19CheckHashRange checks hashFileChunk's range logic against the reference on a real file.
func c19CheckHashRange(dir string, size int64, c uint32, sparse bool) (string, string, bool) {
	ref := c19Ref(size, c)
	if !ref.fits {
		return "", "", false
	}
	p := filepath.Join(dir, "h.bin")
	var content []byte
	if sparse {
		f, err := os.Create(p)
		if err != nil {
			return "", "", false
		}
		if err := f.Truncate(size); err != nil {
			f.Close()
			return "", "", false // filesystem cannot hold a sparse file of that size
		}
		f.Close()
	} else {
		content = verifkit.Content(uint64(size)*131+uint64(c), int(size))
		if err := os.WriteFile(p, content, 0644); err != nil {
			return "", "", false
		}
	}
	idxs := []uint64{}
	if !sparse {
		for i := uint64(0); i < ref.n; i++ {
			idxs = append(idxs, i)
		}
	} else if ref.n > 0 {
		idxs = append(idxs, ref.n-1)
		if ref.n > 1 {
			idxs = append(idxs, 0)
		}
	}
	for _, i := range idxs {
		got, err := hashFileChunk(p, uint32(i), c, size, HashAlgCRC32C)
		if err != nil {
			return "hash-range", fmt.Sprintf("hashFileChunk(size=%d chunk=%d idx=%d) failed: %v (n=%d)", size, c, i, err, ref.n), true
		}
		l := ref.lenAt(i)
		var want uint64
		if sparse {
			want = uint64(crc32.Checksum(make([]byte, l), crc32cTable))
		} else {
			off := i * uint64(c)
			want = uint64(crc32.Checksum(content[off:off+l], crc32cTable))
		}
		if got != want {
			return "hash-range", fmt.Sprintf("hashFileChunk(size=%d chunk=%d idx=%d) hashed a different byte range (len should be %d)", size, c, i, l), true
		}
	}
	if ref.n <= 1<<32-2 {
		if _, err := hashFileChunk(p, uint32(ref.n), c, size, HashAlgCRC32C); err == nil {
			return "hash-range", fmt.Sprintf("hashFileChunk(size=%d chunk=%d idx=n=%d) succeeded beyond the last chunk", size, c, ref.n), true
		}
	}
	return "", "", true
}

func c19NonTrivial(size int64, c uint32) bool {
	if size%int64(c) != 0 {
		return true
	}
	q := uint64(size) / uint64(c)
	return q > 0 && (q&(q-1) == 0 || (q+1)&q == 0)
}

func TestVerifC19Geometry(t *testing.T) {
	rec := verifkit.NewRecorder("C19", "geometry")
	defer rec.Flush()
	dir := verifkit.ScratchDir(t, "scratch")
	fail := func(sig, detail string) {
		rec.Fail(t, sig, detail)
	}
	one := func(size int64, c uint32, class string, withSidecar bool) {
		rec.Eval()
		rec.Class(class)
		sd := ""
		if withSidecar {
			sd = dir
		}
		if sig, detail := c19CheckPure(size, c, sd); sig != "" {
			fail(sig, detail)
			return
		}
		if c19NonTrivial(size, c) {
			rec.NonTrivial(fmt.Sprintf("%d/%d", size, c))
		}
	}
	// (i) exhaustive small domain
	maxS, maxC := int64(400), uint32(48)
	if verifkit.Thorough() {
		maxS, maxC = 2000, 128
	}
	sh, nsh := verifkit.Shard()
	for s := int64(0); s <= maxS; s++ {
		if int(s)%nsh != sh {
			continue
		}
		for c := uint32(1); c <= maxC; c++ {
			one(s, c, "exhaustive-small", true)
			if s <= 300 && c <= 32 || (s%37 == 0) {
				rec.Class("hash-range-real")
				if sig, detail, _ := c19CheckHashRange(dir, s, c, false); sig != "" {
					fail(sig, detail)
				}
			}
		}
	}
	rec.Extra("exhaustive_domain", fmt.Sprintf("size 0..%d x chunk 1..%d (all pairs, sharded %d/%d)", maxS, maxC, sh, nsh))
	rec.SetExhaustive(true)
	// (ii) boundary lattice
	if sh == 0 {
		cs := []uint32{1, 2, 3, 4096, 4 << 20, 1<<31 - 1, 1 << 31, 1<<32 - 1}
		for _, c := range cs {
			maxK := uint64(1<<32 - 1)
			if lim := uint64(c19MaxSize) / uint64(c); lim < maxK {
				maxK = lim
			}
			ks := []uint64{1, 2, 3, 1 << 16, 1 << 31, maxK - 1, maxK}
			for _, k := range ks {
				if k == 0 || k > maxK {
					continue
				}
				base := new(big.Int).Mul(new(big.Int).SetUint64(k), new(big.Int).SetUint64(uint64(c)))
				for d := int64(-1); d <= 1; d++ {
					v := new(big.Int).Add(base, big.NewInt(d))
					if v.Sign() < 0 || v.Cmp(big.NewInt(c19MaxSize)) > 0 {
						continue
					}
					one(v.Int64(), c, "lattice", true)
				}
			}
			for _, s := range []int64{0, 1, 1<<31 - 1, 1 << 31, 1<<31 + 1, 1<<32 - 1, 1 << 32, 1<<32 + 1, c19MaxSize - 1, c19MaxSize} {
				one(s, c, "lattice", true)
			}
		}
		// sparse-file hash range probes (chunk <= 1 MiB to bound memory)
		for _, c := range []uint32{1, 7, 4096, 1 << 20} {
			for _, s := range []int64{1<<31 - 1, 1 << 31, 1<<32 + 1, 1 << 40, c19MaxSize - 1, c19MaxSize} {
				if !c19Ref(s, c).fits {
					continue
				}
				sig, detail, ran := c19CheckHashRange(dir, s, c, true)
				if !ran {
					rec.Class("hash-range-sparse-unsupported")
					continue
				}
				rec.Class("hash-range-sparse")
				rec.Eval()
				if sig != "" {
					fail(sig, detail)
				}
			}
		}
	}
	// (iii) random, constructed so that the chunk count fits the wire field
	rapid.Check(t, func(rt *rapid.T) {
		c := rapid.OneOf(
			rapid.Uint32Range(1, 1<<32-1),
			rapid.Uint32Range(1, 70000),
			rapid.SampledFrom([]uint32{1, 2, 255, 256, 4096, 65535, 65536, 1 << 20, 4 << 20, 1<<31 - 1, 1 << 31, 1<<32 - 1}),
		).Draw(rt, "chunk")
		maxN := uint64(1<<32 - 1)
		if lim := (uint64(c19MaxSize) + uint64(c) - 1) / uint64(c); lim < maxN {
			maxN = lim
		}
		n := rapid.OneOf(rapid.Uint64Range(0, maxN), rapid.Uint64Range(0, 64), rapid.Just(maxN)).Draw(rt, "chunks")
		var size int64
		if n > 0 {
			last := rapid.OneOf(rapid.Uint32Range(1, c), rapid.Just(c), rapid.Just(uint32(1))).Draw(rt, "lastlen")
			v := new(big.Int).Mul(new(big.Int).SetUint64(n-1), new(big.Int).SetUint64(uint64(c)))
			v.Add(v, new(big.Int).SetUint64(uint64(last)))
			if v.Cmp(big.NewInt(c19MaxSize)) > 0 {
				v = big.NewInt(c19MaxSize)
			}
			size = v.Int64()
		}
		rec.Eval()
		rec.Class("random")
		sidecar := rapid.IntRange(0, 9).Draw(rt, "sidecar") == 0
		sd := ""
		if sidecar {
			sd = dir
		}
		if sig, detail := c19CheckPure(size, c, sd); sig != "" {
			rec.Fail(rt, sig, detail)
			return
		}
		if c19NonTrivial(size, c) {
			rec.NonTrivial(fmt.Sprintf("%d/%d", size, c))
		}
		if rec.SampleWanted() {
			rec.Sample(map[string]any{"size": size, "chunk": c, "chunks": c19Ref(size, c).n})
		}
	})
}

// c19RunReceiver announces one file of the given geometry to the real multi-stream
// receiver and sends the listed chunk indices (each with its exact reference length, or 1
// byte beyond the end). With waitDone it then waits for the receiver's FileDone record.
// It reports the receiver's result and whether it returned by itself.
func c19RunReceiver(dir string, size int64, c uint32, resume bool, idxs []uint64, waitDone bool) (rerr error, returned bool, payloads map[uint64][]byte, ok bool) {
	ref := c19Ref(size, c)
	a, b := verifkit.NewMemPair(verifkit.MemOptions{})
	item := manifest.FileItem{RelPath: "f.bin", Size: size, ID: "c19id"}
	m := manifest.Manifest{Root: "r", Items: []manifest.FileItem{item}, TotalBytes: size, FileCount: 1}
	key := fileKeyForItem(item)
	payloads = map[uint64][]byte{}
	ctx, cancel := context.WithTimeout(context.Background(), 40*time.Second)
	defer cancel()
	done := make(chan error, 1)
	begun := make(chan struct{})
	var begunOnce sync.Once
	go func() {
		// The receiver has a lost-wake-up window when a chunk overtakes its FileBegin
		// (owned by C03); this probe is about geometry, so chunks are sent only after the
		// receiver has registered the file (TransferStatsFn fires right after that).
		_, err := RecvManifestMultiStream(ctx, vConn{b}, dir, Options{Resume: resume, NoRootDir: true, HashAlg: "crc32c", ParallelFiles: 1,
			TransferStatsFn: func(active, completed int, remaining int64) {
				if active >= 1 {
					begunOnce.Do(func() { close(begun) })
				}
			}})
		done <- err
	}()
	var ctl *verifkit.MemStream
	sendErr := func() error {
		var err error
		ctl, err = a.OpenStreamRaw(ctx)
		if err != nil {
			return err
		}
		if err := writeControlHeader(ctl, m); err != nil {
			return err
		}
		ds, err := a.OpenStreamRaw(ctx)
		if err != nil {
			return err
		}
		if err := writeDataStreams(ctl, DataStreams{Count: 1}); err != nil {
			return err
		}
		if err := writeFileBegin(ctl, FileBegin{RelPath: item.RelPath, FileSize: uint64(size), ChunkSize: c, StreamID: key, HashAlg: HashAlgCRC32C}); err != nil {
			return err
		}
		select {
		case <-begun:
		case <-time.After(20 * time.Second):
			return fmt.Errorf("receiver never registered the file")
		}
		for _, idx := range idxs {
			l := ref.lenAt(idx)
			if l == 0 {
				l = 1
			}
			data := verifkit.Content(uint64(size)^uint64(c)^(idx<<7), int(l))
			payloads[idx] = data
			var h [dataChunkHeaderLen]byte
			binary.BigEndian.PutUint64(h[0:8], key)
			binary.BigEndian.PutUint32(h[8:12], uint32(idx))
			binary.BigEndian.PutUint32(h[12:16], uint32(len(data)))
			binary.BigEndian.PutUint32(h[16:20], crc32.Checksum(data, crc32cTable))
			if _, err := ds.Write(h[:]); err != nil {
				return err
			}
			if _, err := ds.Write(data); err != nil {
				return err
			}
		}
		return nil
	}()
	if sendErr != nil {
		a.Close()
		rerr = <-done
		return fmt.Errorf("script: %v; receiver: %v", sendErr, rerr), false, nil, false
	}
	if waitDone && ref.n > 1 {
		// the file is not complete after chunk n-1 alone: wait until the chunk is on disk
		idx := idxs[0]
		deadline := time.Now().Add(15 * time.Second)
		for time.Now().Before(deadline) {
			if f, err := os.Open(filepath.Join(dir, "f.bin")); err == nil {
				buf := make([]byte, len(payloads[idx]))
				_, rerr2 := f.ReadAt(buf, int64(idx)*int64(c))
				f.Close()
				if rerr2 == nil && string(buf) == string(payloads[idx]) {
					break
				}
			}
			time.Sleep(2 * time.Millisecond)
		}
		a.Close()
		rerr = <-done
		return rerr, false, payloads, true
	}
	if waitDone {
		// the sender's "done with this file" record, carrying the number of frames it sent
		if err := writeFileEnd(ctl, FileEnd{StreamID: key, CRC32: uint32(len(idxs))}); err != nil {
			a.Close()
			rerr = <-done
			return fmt.Errorf("script: %v; receiver: %v", err, rerr), false, nil, false
		}
		got := make(chan bool, 1)
		go func() {
			for {
				typ, _, err := readControlMessage(ctl)
				if err != nil {
					got <- false
					return
				}
				if typ == controlTypeFileDone {
					got <- true
					return
				}
			}
		}()
		select {
		case <-got:
		case <-time.After(15 * time.Second):
		}
		a.Close()
		rerr = <-done
		return rerr, false, payloads, true
	}
	select {
	case rerr = <-done:
		returned = true
	case <-time.After(15 * time.Second):
		a.Close()
		rerr = <-done
	}
	a.Close()
	return rerr, returned, payloads, true
}

// c19ProbeReceiver: the receiver must place chunk n-1 (exact length) at offset (n-1)*c of
// a file of exactly `size` bytes, record bit n-1 of n in its resume metadata, and reject
// chunk index n.
func c19ProbeReceiver(dir string, size int64, c uint32, resume, stale bool) (string, string, bool) {
	ref := c19Ref(size, c)
	if !ref.fits || ref.n == 0 {
		return "", "", false
	}
	os.RemoveAll(dir)
	if err := os.MkdirAll(dir, 0755); err != nil {
		return "", "", false
	}
	if size > 1<<30 { // does the filesystem take a sparse file of that size?
		f, err := os.Create(filepath.Join(dir, "probe"))
		if err != nil {
			return "", "", false
		}
		err = f.Truncate(size)
		f.Close()
		os.Remove(filepath.Join(dir, "probe"))
		if err != nil {
			return "", "", false
		}
	}
	if ref.n > 1<<22 {
		resume = false // a bitmap of n bits would dominate the probe (up to 512 MiB); metadata counts are covered by c19CheckPure
	}
	desc := fmt.Sprintf("size=%d chunk=%d n=%d resume=%v", size, c, ref.n, resume)
	if stale && resume && size <= 1<<30 {
		// state of an earlier attempt made with ANOTHER chunk size: a full-length data file and
		// metadata (created by the production function) that marks chunk 0 of that other tiling;
		// the new attempt must end with metadata of its own geometry
		other := c + 1
		if c > 2 && size%3 == 0 {
			other = c - 1
		} else if size%3 == 1 && c < 1<<30 {
			other = c * 2
		}
		if f, err := os.Create(filepath.Join(dir, "f.bin")); err == nil {
			f.Truncate(size)
			f.Close()
		}
		if old, err := LoadOrCreateSidecarWithFallback(SidecarPath(dir, "", "c19id"), "", "c19id", size, other); err == nil {
			old.MarkComplete(0)
			old.Flush()
			desc += fmt.Sprintf(" stale-metadata-of-chunk-size=%d", other)
		}
	}
	beyond := ref.n <= 1<<32-2
	var rerr error
	var payloads map[uint64][]byte
	if ref.n == 1 || !beyond {
		// chunk n-1 completes the file (or n is not expressible): wait for the acknowledgement
		var ok bool
		rerr, _, payloads, ok = c19RunReceiver(dir, size, c, resume, []uint64{ref.n - 1}, true)
		if !ok {
			return "", fmt.Sprint(rerr), false
		}
		if beyond {
			dir2 := dir + ".beyond"
			os.RemoveAll(dir2)
			os.MkdirAll(dir2, 0755)
			err2, returned, _, ok2 := c19RunReceiver(dir2, size, c, resume, []uint64{ref.n}, false)
			os.RemoveAll(dir2)
			if ok2 && (!returned || err2 == nil) {
				return "receiver-accepts-chunk-beyond-end", fmt.Sprintf("receiver did not reject chunk index n (returned=%v err=%v): %s", returned, err2, desc), true
			}
		}
	} else {
		var ok, returned bool
		rerr, returned, payloads, ok = c19RunReceiver(dir, size, c, resume, []uint64{ref.n - 1, ref.n}, false)
		if !ok {
			return "", fmt.Sprint(rerr), false
		}
		if !returned || rerr == nil {
			return "receiver-accepts-chunk-beyond-end", fmt.Sprintf("receiver did not reject chunk index n (returned=%v err=%v): %s", returned, rerr, desc), true
		}
	}
	payload := payloads[ref.n-1]
	fp := filepath.Join(dir, "f.bin")
	st, err := os.Stat(fp)
	if err != nil {
		return "receiver-output-missing", desc + ": " + err.Error(), true
	}
	if st.Size() != size {
		return "receiver-file-length", fmt.Sprintf("output length %d != %d (%s; receiver error: %v)", st.Size(), size, desc, rerr), true
	}
	f, err := os.Open(fp)
	if err != nil {
		return "", "", false
	}
	defer f.Close()
	got := make([]byte, len(payload))
	off := int64(ref.n-1) * int64(c)
	if _, err := f.ReadAt(got, off); err != nil {
		return "receiver-chunk-offset", fmt.Sprintf("cannot read back chunk n-1 at %d: %v (%s)", off, err, desc), true
	}
	if string(got) != string(payload) {
		return "receiver-chunk-offset", fmt.Sprintf("chunk n-1 not found at offset (n-1)*c=%d (%s; receiver error: %v)", off, desc, rerr), true
	}
	if resume && ref.n <= 1<<22 {
		sc, err := LoadSidecar(SidecarPath(dir, "", "c19id"))
		if err != nil {
			return "receiver-metadata-missing", desc + ": " + err.Error(), true
		}
		if uint64(sc.TotalChunks) != ref.n || sc.ChunkSize != c {
			return "metadata-chunk-count", fmt.Sprintf("resume metadata says %d chunks of %d bytes, reference %d of %d (%s)", sc.TotalChunks, sc.ChunkSize, ref.n, c, desc), true
		}
		if !sc.IsComplete(uint32(ref.n-1)) || sc.bitmap.CountSet() != 1 {
			return "metadata-chunk-index", fmt.Sprintf("resume metadata does not mark exactly chunk n-1 (%s)", desc), true
		}
	}
	return "", "", true
}

func TestVerifC19Receiver(t *testing.T) {
	rec := verifkit.NewRecorder("C19", "receiver")
	defer rec.Flush()
	dir := filepath.Join(verifkit.ScratchDir(t, "c19"), "out")
	sh, nsh := verifkit.Shard()
	run := func(f verifkit.Failer, size int64, c uint32, resume, stale bool, class string) {
		t0 := time.Now()
		stale = stale && resume
		sig, detail, ran := c19ProbeReceiver(dir, size, c, resume, stale)
		if stale && ran {
			rec.Class("stale-metadata-of-other-chunk-size")
		}
		if d := time.Since(t0); d > 2*time.Second {
			rec.Note("slow probe (%.1fs): size=%d chunk=%d resume=%v sig=%s %s", d.Seconds(), size, c, resume, sig, detail)
		}
		if !ran {
			if detail != "" {
				rec.Note("probe skipped: size=%d chunk=%d resume=%v detail=%s", size, c, resume, detail)
			}
			rec.Class("probe-skipped")
			return
		}
		rec.Eval()
		rec.Class(class)
		if sig != "" {
			rec.Fail(f, sig, detail)
			return
		}
		if c19NonTrivial(size, c) {
			rec.NonTrivial(fmt.Sprintf("%d/%d/%v", size, c, resume))
		}
	}
	// small exhaustive block
	maxS, maxC := int64(40), uint32(9)
	if verifkit.Thorough() {
		maxS, maxC = 160, 24
	}
	k := 0
	for s := int64(1); s <= maxS; s++ {
		for c := uint32(1); c <= maxC; c++ {
			k++
			if k%nsh != sh {
				continue
			}
			run(t, s, c, k%2 == 0, k%6 == 0, "small")
		}
	}
	// lattice with sparse outputs
	if sh == 0 {
		for _, c := range []uint32{1, 3, 4096, 65536, 1 << 20} {
			for _, s := range []int64{1<<31 - 1, 1 << 31, 1<<31 + 1, 1<<32 - 1, 1 << 32, 1<<32 + 1, 1 << 40, c19MaxSize - 1, c19MaxSize} {
				run(t, s, c, true, s == 1<<31, "sparse-lattice")
				run(t, s, c, false, false, "sparse-lattice")
			}
		}
	}
	rapid.Check(t, func(rt *rapid.T) {
		c := rapid.OneOf(rapid.Uint32Range(1, 1<<20), rapid.Uint32Range(1, 300)).Draw(rt, "chunk")
		maxN := uint64(1<<32 - 1)
		if lim := (uint64(c19MaxSize) + uint64(c) - 1) / uint64(c); lim < maxN {
			maxN = lim
		}
		n := rapid.OneOf(rapid.Uint64Range(1, maxN), rapid.Uint64Range(1, 64), rapid.Just(maxN)).Draw(rt, "chunks")
		last := rapid.OneOf(rapid.Uint32Range(1, c), rapid.Just(c)).Draw(rt, "lastlen")
		v := new(big.Int).Mul(new(big.Int).SetUint64(n-1), new(big.Int).SetUint64(uint64(c)))
		v.Add(v, new(big.Int).SetUint64(uint64(last)))
		if v.Cmp(big.NewInt(c19MaxSize)) > 0 {
			v = big.NewInt(c19MaxSize)
		}
		resume := rapid.Bool().Draw(rt, "resume")
		stale := rapid.IntRange(0, 2).Draw(rt, "stale_metadata") == 0
		run(rt, v.Int64(), c, resume, stale, "random")
		if rec.SampleWanted() {
			rec.Sample(map[string]any{"size": v.Int64(), "chunk": c, "resume": resume, "probe": "receiver: chunk n-1 accepted at (n-1)*c, chunk n rejected"})
		}
	})
}
