package transfer

import (
	"bytes"
	"context"
	"encoding/binary"
	"fmt"
	"os"
	"path/filepath"
	"runtime"
	"testing"
	"time"

	"github.com/sheerbytes/sheerbytes/internal/verifkit"
	"github.com/sheerbytes/sheerbytes/pkg/manifest"
	"pgregory.net/rapid"
)

// ---- C15 (decoder ring): arbitrary bytes into every record reader -------------------------

// c15Decoders are the entry points that parse peer-controlled bytes from a stream.
var c15Decoders = []struct {
	name string
	run  func(s Stream, dir string) error
}{
	{"readControlMessage", func(s Stream, dir string) error {
		for i := 0; i < 64; i++ {
			if _, _, err := readControlMessage(s); err != nil {
				return err
			}
		}
		return nil
	}},
	{"readControlHeader", func(s Stream, dir string) error { _, err := readControlHeader(s); return err }},
	{"RecvManifest", func(s Stream, dir string) error {
		_, err := RecvManifest(context.Background(), s, dir, nil)
		return err
	}},
	{"RecvFile", func(s Stream, dir string) error { _, err := RecvFile(context.Background(), s, dir); return err }},
}

// c15Measure runs fn and returns the bytes it allocated, an error string for a panic, and the duration.
func c15Measure(fn func() error) (alloc uint64, panicked string, dur time.Duration, err error) {
	var a, b runtime.MemStats
	runtime.ReadMemStats(&a)
	t0 := time.Now()
	type outcome struct {
		pan string
		err error
	}
	done := make(chan outcome, 1)
	go func() {
		var o outcome
		defer func() {
			if r := recover(); r != nil {
				o.pan = fmt.Sprint(r)
			}
			done <- o
		}()
		o.err = fn()
	}()
	select {
	case o := <-done:
		panicked, err = o.pan, o.err
		dur = time.Since(t0)
	case <-time.After(6 * time.Second):
		// it does not return on input that has ended (the goroutine is left behind); reported as "slow"
		dur = time.Since(t0)
	}
	runtime.ReadMemStats(&b)
	return b.TotalAlloc - a.TotalAlloc, panicked, dur, err
}

// c15Bound is the memory a decoder may allocate for an input of n bytes.
func c15Bound(n int) uint64 { return 256*1024 + 16*uint64(n) }

func c15ValidPrefixes() [][]byte {
	var out [][]byte
	enc := func(r c18Rec) []byte {
		w := &vBufStream{}
		c18Encode(w, r)
		return w.W.Bytes()
	}
	out = append(out,
		enc(c18Rec{controlTypeFileBegin, FileBegin{RelPath: "a/b.bin", FileSize: 100, ChunkSize: 10, StreamID: 7, HashAlg: 1}}),
		enc(c18Rec{controlTypeFileEnd, FileEnd{StreamID: 7}}),
		enc(c18Rec{controlTypeFileDone, FileDone{StreamID: 7, OK: false, ErrMsg: "boom"}}),
		enc(c18Rec{controlTypeFileResumeInfo, FileResumeInfo{FileID: "0123456789abcdef", StreamID: 7, TotalChunks: 10, Bitmap: []byte{0xff, 0x03}, LastVerifiedChunk: 9}}),
		enc(c18Rec{controlTypeResumeRequest, ResumeRequest{FileID: "0123456789abcdef", StreamID: 7}}),
		enc(c18Rec{controlTypeCreditBatch, CreditBatch{Entries: []Credit{{1, 2}, {3, 4}}}}),
		enc(c18Rec{controlTypeDataStreams, DataStreams{Count: 4}}),
		enc(c18Rec{controlTypeEnd, nil}),
	)
	hw := &vBufStream{}
	writeControlHeader(hw, manifest.Manifest{Root: "r", Items: []manifest.FileItem{{RelPath: "f", Size: 3, ID: "aa"}}, FileCount: 1, TotalBytes: 3})
	out = append(out, hw.W.Bytes())
	return out
}

func TestVerifC15Decoders(t *testing.T) {
	rec := verifkit.NewRecorder("C15", "decoders")
	defer rec.Flush()
	dir := verifkit.ScratchDir(t, "scratch")
	valid := c15ValidPrefixes()
	hostile := [][]byte{{0xff, 0xff, 0xff, 0xff}, {0xff, 0xff}, {0x7f, 0xff, 0xff, 0xff}, {0x80, 0, 0, 0}, {0, 0, 0, 0}, {0, 0x10, 0, 0}}
	judge := func(f verifkit.Failer, dec int, data []byte, what string) bool {
		d := c15Decoders[dec]
		out := filepath.Join(dir, "o")
		os.RemoveAll(out)
		os.MkdirAll(out, 0755)
		alloc, pan, dur, _ := c15Measure(func() error { return d.run(vReaderStream(data), out) })
		rec.Eval()
		rec.Class("decoder/" + d.name)
		if pan != "" {
			rec.Fail(f, "panic:"+d.name, fmt.Sprintf("%s panicked on %s (%d bytes, %x...): %s", d.name, what, len(data), data[:min(len(data), 40)], pan))
			return false
		}
		if dur > 3*time.Second {
			rec.Fail(f, "slow:"+d.name, fmt.Sprintf("%s took %s on %d bytes of ended input (%s)", d.name, dur, len(data), what))
			return false
		}
		if alloc > c15Bound(len(data)) {
			rec.Fail(f, "alloc-by-prefix:"+d.name, fmt.Sprintf("%s allocated %d bytes for %d bytes of input (%s; %x...)", d.name, alloc, len(data), what, data[:min(len(data), 40)]))
			return false
		}
		return true
	}
	// (a) every truncation of every valid record, and every valid record with each hostile length constant spliced in at every offset
	for vi, v := range valid {
		for cut := 0; cut <= len(v); cut++ {
			for dec := range c15Decoders[:2] {
				judge(t, dec, v[:cut], fmt.Sprintf("valid record %d truncated at %d", vi, cut))
			}
		}
		for off := 0; off+1 < len(v); off++ {
			for hi, h := range hostile {
				m := append([]byte(nil), v...)
				copy(m[off:], h)
				for dec := range c15Decoders[:2] {
					judge(t, dec, m, fmt.Sprintf("valid record %d with hostile constant %d at offset %d", vi, hi, off))
				}
			}
		}
		rec.NonTrivial(fmt.Sprintf("valid-%d", vi))
	}
	// legacy readers: magic + hostile manifest length
	for _, h := range hostile {
		judge(t, 2, append([]byte("SBM1"), h...), "legacy manifest header with hostile length")
		judge(t, 3, append(append([]byte("SBX1"), 0, 3, 'a', 'b', 'c'), append(h, h...)...), "legacy file header with hostile size")
	}
	// a length prefix far beyond what follows, with MORE than one read step of payload delivered
	// before the input ends (memory must follow the bytes received, not the announced length)
	for _, claimed := range []uint32{1 << 29, 0xfffffff0} {
		for _, delivered := range []int{65535, 65536, 65537, 66000, 200000} {
			body := verifkit.Content(uint64(claimed)+uint64(delivered), delivered)
			judge(t, 1, append(append([]byte("SBC1"), be32b(claimed)...), body...), fmt.Sprintf("control header announcing %d bytes of manifest, %d delivered", claimed, delivered))
			judge(t, 2, append(append([]byte("SBM1"), be32b(claimed)...), body...), fmt.Sprintf("legacy manifest header announcing %d bytes, %d delivered", claimed, delivered))
			ri := append([]byte{controlTypeFileResumeInfo, 0, 0}, be64b(7)...)
			ri = append(append(ri, be32b(3)...), be32b(claimed)...)
			judge(t, 0, append(ri, body...), fmt.Sprintf("FileResumeInfo announcing a bitmap of %d bytes, %d delivered", claimed, delivered))
		}
	}
	// FileResumeInfo whose two peer-supplied counts agree with each other (bitmap length =
	// ceil(chunks/8)) and are absurd; their agreement proves nothing about what will arrive
	for _, claimed := range []uint32{1 << 28, 1 << 26, 1<<29 - 1} {
		total := uint64(claimed) * 8
		if total > 0xffffffff {
			total = 0xffffffff
		}
		if (total+7)/8 != uint64(claimed) {
			continue
		}
		for _, delivered := range []int{0, 5, 65536, 200000} {
			body := verifkit.Content(uint64(claimed)+uint64(delivered), delivered)
			ri := append([]byte{controlTypeFileResumeInfo, 0, 0}, be64b(7)...)
			ri = append(append(ri, be32b(uint32(total))...), be32b(claimed)...)
			judge(t, 0, append(ri, body...), fmt.Sprintf("FileResumeInfo announcing %d chunks and a matching bitmap of %d bytes, %d delivered", total, claimed, delivered))
		}
	}
	// announced lengths that are whole multiples of the readers' 64 KiB step, with all but the
	// last step (or everything) delivered before the input ends
	for _, claimed := range []uint32{65536, 131072, 196608, 1 << 20} {
		for _, missing := range []int{65536, 65535, 1, 0} {
			delivered := int(claimed) - missing
			if delivered < 0 {
				continue
			}
			body := verifkit.Content(uint64(claimed)+uint64(delivered), delivered)
			judge(t, 1, append(append([]byte("SBC1"), be32b(claimed)...), body...), fmt.Sprintf("control header announcing %d bytes of manifest, %d delivered", claimed, delivered))
			judge(t, 2, append(append([]byte("SBM1"), be32b(claimed)...), body...), fmt.Sprintf("legacy manifest header announcing %d bytes, %d delivered", claimed, delivered))
			ri := append([]byte{controlTypeFileResumeInfo, 0, 0}, be64b(7)...)
			ri = append(append(ri, be32b(claimed*8)...), be32b(claimed)...)
			judge(t, 0, append(ri, body...), fmt.Sprintf("FileResumeInfo announcing a bitmap of %d bytes, %d delivered", claimed, delivered))
		}
	}
	rec.NonTrivial("announced-length-vs-delivered")
	// (b) random and structured-random input
	rapid.Check(t, func(rt *rapid.T) {
		dec := rapid.IntRange(0, len(c15Decoders)-1).Draw(rt, "decoder")
		var data []byte
		switch rapid.IntRange(0, 3).Draw(rt, "shape") {
		case 0:
			data = rapid.SliceOfN(rapid.Byte(), 0, 300).Draw(rt, "bytes")
		case 1: // valid prefix + garbage
			v := valid[rapid.IntRange(0, len(valid)-1).Draw(rt, "valid")]
			cut := rapid.IntRange(0, len(v)).Draw(rt, "cut")
			data = append(append([]byte(nil), v[:cut]...), rapid.SliceOfN(rapid.Byte(), 0, 64).Draw(rt, "tail")...)
		case 2: // sequence of valid records with one byte edit
			n := rapid.IntRange(1, 6).Draw(rt, "nrec")
			for i := 0; i < n; i++ {
				data = append(data, valid[rapid.IntRange(0, len(valid)-2).Draw(rt, fmt.Sprintf("rec%d", i))]...)
			}
			if len(data) > 0 {
				data[rapid.IntRange(0, len(data)-1).Draw(rt, "pos")] = rapid.Byte().Draw(rt, "val")
			}
		default: // right magic for the decoder, then garbage
			magic := [][]byte{{}, []byte("SBC1"), []byte("SBM1"), []byte("SBX1")}[dec]
			data = append(append([]byte(nil), magic...), rapid.SliceOfN(rapid.Byte(), 0, 120).Draw(rt, "aftermagic")...)
		}
		if !judge(rt, dec, data, "generated input") {
			return
		}
		if len(data) >= 5 {
			rec.NonTrivial(fmt.Sprintf("%d/%x", dec, data[:min(len(data), 24)]))
		}
		if rec.SampleWanted() {
			rec.Sample(map[string]any{"decoder": c15Decoders[dec].name, "bytes": fmt.Sprintf("%x", data[:min(len(data), 48)]), "len": len(data)})
		}
	})
}

// ---- C15 (endpoint ring): hostile input at every protocol stage ----------------------------
//
// A scripted peer plays an honest session up to a drawn record boundary and then appends
// one deviation. Cases run in batches inside a child process (this test binary re-executed)
// so that a panic in a background goroutine of the endpoint is attributed to the case.

type c15Case struct {
	Side     string // "receiver" (real RecvManifestMultiStream vs hostile sender) or "sender"
	Stage    int    // how many honest steps are played before the deviation
	Mutation string
	Arg      uint64
	Close    string // how the script ends: "close-conn", "close-streams", "fin-control"
	Resume   bool
	Streams  int
}

func (c c15Case) String() string {
	type plain c15Case
	return fmt.Sprintf("%+v", plain(c))
}

var c15RecvMutations = []string{"nothing", "garbage-control", "garbage-data", "unknown-type", "second-header", "dup-filebegin", "fileend-unknown", "chunk-unknown-file",
	"chunk-len-0", "chunk-len-big", "chunk-index-big", "datastreams-0", "datastreams-65535", "filebegin-chunksize-0", "filebegin-huge-chunksize", "filebegin-size-mismatch",
	"resume-unknown", "creditbatch-huge", "manifest-len-huge", "bad-crc", "truncated-record", "end-early", "chunk-for-empty-file", "fileend-dup-then-more", "filebegin-hashalg-on-prior-state"}
var c15SendMutations = []string{"nothing", "garbage-control", "unknown-type", "filedone-unknown", "filedone-dup", "resumeinfo-huge-bitmap", "resumeinfo-short-bitmap", "resumeinfo-wrong-total",
	"resumeinfo-wrong-id", "creditbatch-huge", "filebegin-from-receiver", "truncated-record", "close-early"}

func c15Gen(x *verifkit.XorShift, i int) c15Case {
	c := c15Case{Side: "receiver", Streams: 1 + int(x.Next()%3), Resume: x.Next()%2 == 0}
	if x.Next()%3 == 0 {
		c.Side = "sender"
		c.Mutation = c15SendMutations[int(x.Next()%uint64(len(c15SendMutations)))]
	} else {
		c.Mutation = c15RecvMutations[int(x.Next()%uint64(len(c15RecvMutations)))]
	}
	c.Stage = int(x.Next() % 9)
	c.Arg = x.Next()
	c.Close = []string{"close-conn", "close-streams", "fin-control"}[int(x.Next()%3)]
	return c
}

type c15Result struct {
	Returned bool
	Err      string
	Alloc    uint64
	Bytes    int64
	Dur      time.Duration
}

func be32b(v uint32) []byte { b := make([]byte, 4); binary.BigEndian.PutUint32(b, v); return b }
func be64b(v uint64) []byte { b := make([]byte, 8); binary.BigEndian.PutUint64(b, v); return b }

// c15RunReceiver plays a hostile sender against the real receiver.
func c15RunReceiver(c c15Case, dir string) c15Result {
	out := filepath.Join(dir, "out")
	os.RemoveAll(out)
	os.MkdirAll(out, 0755)
	tap := &verifkit.Tap{}
	a, b := verifkit.NewMemPair(verifkit.MemOptions{Tap: tap})
	items := []manifest.FileItem{{RelPath: "d", IsDir: true, ID: "d0"}, {RelPath: "d/f1.bin", Size: 40, ID: "00000000000000f1"}, {RelPath: "f2.bin", Size: 0, ID: "00000000000000f2"}, {RelPath: "f3.bin", Size: 25, ID: "00000000000000f3"}}
	m := manifest.Manifest{Root: "r", Items: items, FileCount: 3, FolderCount: 1, TotalBytes: 65}
	if c.Mutation == "filebegin-hashalg-on-prior-state" {
		// the output directory holds the state of an interrupted earlier attempt for f3.bin (one
		// of two chunks recorded): the receiver will hash that chunk with whatever algorithm
		// the peer's FileBegin names
		c.Resume = true
		os.WriteFile(filepath.Join(out, "f3.bin"), verifkit.Content(25, 25), 0644)
		sp := SidecarPath(out, "", "00000000000000f3")
		os.MkdirAll(filepath.Dir(sp), 0755)
		if sc, err := CreateSidecar(sp, "00000000000000f3", 25, 16); err == nil {
			sc.MarkComplete(0)
			sc.Flush()
		}
	}
	ctx, cancel := context.WithTimeout(context.Background(), 20*time.Second)
	defer cancel()
	done := make(chan error, 1)
	var res c15Result
	var ms0, ms1 runtime.MemStats
	runtime.GC()
	runtime.ReadMemStats(&ms0)
	t0 := time.Now()
	go func() {
		_, err := RecvManifestMultiStream(ctx, vConn{b}, out, Options{Resume: c.Resume, NoRootDir: true, HashAlg: "crc32c", ParallelFiles: c.Streams})
		done <- err
	}()
	// honest steps, in order; the deviation is inserted after c.Stage of them
	ctl, _ := a.OpenStreamRaw(ctx)
	var data []*verifkit.MemStream
	steps := []func(){}
	hdr := &vBufStream{}
	writeControlHeader(hdr, m)
	steps = append(steps, func() { ctl.Write(hdr.W.Bytes()) })
	steps = append(steps, func() {
		for i := 0; i < c.Streams; i++ {
			s, _ := a.OpenStreamRaw(ctx)
			data = append(data, s)
		}
		w := &vBufStream{}
		writeDataStreams(w, DataStreams{Count: uint16(c.Streams)})
		ctl.Write(w.W.Bytes())
	})
	chunk := uint32(16)
	for _, it := range items {
		if it.IsDir {
			continue
		}
		it := it
		key := fileKeyForItem(it)
		steps = append(steps, func() {
			w := &vBufStream{}
			writeFileBegin(w, FileBegin{RelPath: it.RelPath, FileSize: uint64(it.Size), ChunkSize: chunk, StreamID: key, HashAlg: 1})
			ctl.Write(w.W.Bytes())
		})
		if it.Size > 0 {
			steps = append(steps, func() {
				content := verifkit.Content(uint64(it.Size), int(it.Size))
				for off, idx := 0, 0; off < len(content); off, idx = off+int(chunk), idx+1 {
					end := min(off+int(chunk), len(content))
					var h [20]byte
					binary.BigEndian.PutUint64(h[0:], key)
					binary.BigEndian.PutUint32(h[8:], uint32(idx))
					binary.BigEndian.PutUint32(h[12:], uint32(end-off))
					binary.BigEndian.PutUint32(h[16:], crc32Checksum(content[off:end]))
					if len(data) > 0 {
						ds := data[idx%len(data)]
						ds.Write(h[:])
						ds.Write(content[off:end])
					}
				}
			})
		}
		steps = append(steps, func() {
			w := &vBufStream{}
			writeFileEnd(w, FileEnd{StreamID: key})
			ctl.Write(w.W.Bytes())
		})
	}
	stage := c.Stage
	if stage > len(steps) {
		stage = len(steps)
	}
	for i := 0; i < stage; i++ {
		steps[i]()
	}
	dataStream := func() *verifkit.MemStream {
		if len(data) == 0 {
			s, _ := a.OpenStreamRaw(ctx)
			data = append(data, s)
		}
		return data[int(c.Arg%uint64(len(data)))]
	}
	key1 := fileKeyForItem(items[1])
	frame := func(key uint64, idx, l, crc uint32, payload []byte) []byte {
		var h [20]byte
		binary.BigEndian.PutUint64(h[0:], key)
		binary.BigEndian.PutUint32(h[8:], idx)
		binary.BigEndian.PutUint32(h[12:], l)
		binary.BigEndian.PutUint32(h[16:], crc)
		return append(h[:], payload...)
	}
	garbage := verifkit.Content(c.Arg, 1+int(c.Arg%200))
	switch c.Mutation {
	case "garbage-control":
		ctl.Write(garbage)
	case "garbage-data":
		dataStream().Write(garbage)
	case "unknown-type":
		ctl.Write([]byte{byte(0x20 + c.Arg%0xd0)})
	case "second-header":
		ctl.Write(hdr.W.Bytes())
	case "dup-filebegin":
		w := &vBufStream{}
		writeFileBegin(w, FileBegin{RelPath: "d/f1.bin", FileSize: 40, ChunkSize: chunk, StreamID: key1, HashAlg: 1})
		ctl.Write(w.W.Bytes())
		ctl.Write(w.W.Bytes())
	case "fileend-unknown":
		w := &vBufStream{}
		writeFileEnd(w, FileEnd{StreamID: c.Arg})
		ctl.Write(w.W.Bytes())
	case "chunk-unknown-file":
		dataStream().Write(frame(c.Arg, 0, 4, crc32Checksum([]byte("abcd")), []byte("abcd")))
	case "chunk-len-0":
		dataStream().Write(frame(key1, 0, 0, 0, nil))
	case "chunk-len-big":
		dataStream().Write(frame(key1, 0, 1<<31, 0, []byte("xx")))
	case "chunk-index-big":
		dataStream().Write(frame(key1, 1<<30, 4, crc32Checksum([]byte("abcd")), []byte("abcd")))
	case "datastreams-0", "datastreams-65535":
		n := uint16(0)
		if c.Mutation == "datastreams-65535" {
			n = 65535
		}
		w := &vBufStream{}
		writeDataStreams(w, DataStreams{Count: n})
		ctl.Write(w.W.Bytes())
	case "filebegin-chunksize-0", "filebegin-huge-chunksize", "filebegin-size-mismatch":
		fb := FileBegin{RelPath: "f3.bin", FileSize: 25, ChunkSize: chunk, StreamID: fileKeyForItem(items[3]), HashAlg: 1}
		switch c.Mutation {
		case "filebegin-chunksize-0":
			fb.ChunkSize = 0
		case "filebegin-huge-chunksize":
			fb.ChunkSize = 1 << 30
		default:
			fb.FileSize = 26
		}
		w := &vBufStream{}
		writeFileBegin(w, fb)
		ctl.Write(w.W.Bytes())
		if c.Mutation != "filebegin-size-mismatch" {
			dataStream().Write(frame(fb.StreamID, 0, 4, crc32Checksum([]byte("abcd")), []byte("abcd")))
		}
	case "filebegin-hashalg-on-prior-state":
		alg := []byte{3, 4, 5, 255, 2, 0, 128, 3}[c.Arg%8]
		w := &vBufStream{}
		writeFileBegin(w, FileBegin{RelPath: "f3.bin", FileSize: 25, ChunkSize: 16, StreamID: fileKeyForItem(items[3]), HashAlg: alg})
		ctl.Write(w.W.Bytes())
	case "resume-unknown":
		w := &vBufStream{}
		writeResumeRequest(w, ResumeRequest{FileID: "nope", StreamID: c.Arg})
		ctl.Write(w.W.Bytes())
	case "creditbatch-huge":
		ctl.Write(append([]byte{controlTypeCreditBatch}, be32b(0xffffffff)...))
	case "manifest-len-huge":
		ctl.Write(append([]byte("SBC1"), be32b(0xfffffff0)...))
	case "bad-crc":
		dataStream().Write(frame(key1, 0, 4, 12345, []byte("abcd")))
	case "truncated-record":
		w := &vBufStream{}
		writeFileBegin(w, FileBegin{RelPath: "f3.bin", FileSize: 25, ChunkSize: chunk, StreamID: 9})
		b := w.W.Bytes()
		ctl.Write(b[:1+int(c.Arg%uint64(len(b)-1))])
	case "end-early":
		w := &vBufStream{}
		writeControlEnd(w)
		ctl.Write(w.W.Bytes())
	case "fileend-dup-then-more":
		// FileEnd once more for the first file (finished by then if the stage is late enough),
		// then the script simply goes on with its remaining honest steps
		w := &vBufStream{}
		writeFileEnd(w, FileEnd{StreamID: key1})
		ctl.Write(w.W.Bytes())
		time.Sleep(2 * time.Millisecond)
		for i := stage; i < len(steps); i++ {
			steps[i]()
		}
	case "chunk-for-empty-file":
		// f2.bin is empty: no honest sender ever sends a frame for it
		key2 := fileKeyForItem(items[2])
		if stage <= 5 { // its FileBegin has not been played yet
			w := &vBufStream{}
			writeFileBegin(w, FileBegin{RelPath: "f2.bin", FileSize: 0, ChunkSize: chunk, StreamID: key2, HashAlg: 1})
			ctl.Write(w.W.Bytes())
		}
		if c.Arg%2 == 0 {
			dataStream().Write(frame(key2, uint32(c.Arg>>8)%3, 4, crc32Checksum([]byte("abcd")), []byte("abcd")))
		} else {
			dataStream().Write(frame(key2, 0, 0, 0, nil))
		}
	}
	time.Sleep(3 * time.Millisecond)
	switch c.Close {
	case "close-conn":
		a.Close()
	case "close-streams":
		ctl.Close()
		for _, s := range data {
			s.Close()
		}
	case "fin-control":
		ctl.Close()
	}
	closedAt := time.Now()
	select {
	case err := <-done:
		res.Returned = true
		if err != nil {
			res.Err = err.Error()
		}
	case <-time.After(2500 * time.Millisecond):
	}
	res.Dur = time.Since(closedAt)
	runtime.ReadMemStats(&ms1)
	res.Alloc = ms1.TotalAlloc - ms0.TotalAlloc
	res.Bytes = tap.Bytes()
	_ = t0
	if !res.Returned {
		a.Close()
		cancel()
		select {
		case <-done:
		case <-time.After(2 * time.Second):
		}
	}
	return res
}

func crc32Checksum(b []byte) uint32 {
	return crc32cOf(b)
}

// c15RunSender plays a hostile receiver against the real sender.
func c15RunSender(c c15Case, dir string) c15Result {
	src := filepath.Join(dir, "src")
	os.RemoveAll(src)
	os.MkdirAll(src, 0755)
	os.WriteFile(filepath.Join(src, "f1.bin"), verifkit.Content(1, 400), 0644)
	if c.Arg%2 == 1 {
		// (with two small files the scheduler admits them one at a time, and a receiver that
		// never confirms the first keeps the second from starting; half the cases use one file)
		os.WriteFile(filepath.Join(src, "f2.bin"), verifkit.Content(2, 25), 0644)
	}
	m, err := manifest.Scan(src)
	if err != nil {
		return c15Result{Returned: true, Err: "scan: " + err.Error()}
	}
	tap := &verifkit.Tap{}
	a, b := verifkit.NewMemPair(verifkit.MemOptions{Tap: tap})
	ctx, cancel := context.WithTimeout(context.Background(), 20*time.Second)
	defer cancel()
	done := make(chan error, 1)
	var res c15Result
	var ms0, ms1 runtime.MemStats
	runtime.GC()
	runtime.ReadMemStats(&ms0)
	go func() {
		done <- SendManifestMultiStream(ctx, vConn{a}, src, m, Options{ChunkSize: 16, ParallelFiles: c.Streams, Resume: c.Resume})
	}()
	ctl, err := b.AcceptStreamRaw(ctx)
	if err != nil {
		return c15Result{Returned: true, Err: "accept: " + err.Error()}
	}
	// drain what the sender writes, in the background
	go func() {
		buf := make([]byte, 4096)
		for {
			if _, err := ctl.Read(buf); err != nil {
				return
			}
		}
	}()
	go func() {
		for {
			s, err := b.AcceptStreamRaw(ctx)
			if err != nil {
				return
			}
			go func() {
				buf := make([]byte, 4096)
				for {
					if _, err := s.Read(buf); err != nil {
						return
					}
				}
			}()
		}
	}()
	var files []manifest.FileItem
	for _, it := range m.Items {
		if !it.IsDir {
			files = append(files, it)
		}
	}
	time.Sleep(time.Duration(c.Stage%4) * time.Millisecond)
	key := fileKeyForItem(files[int(c.Arg%uint64(len(files)))])
	w := &vBufStream{}
	switch c.Mutation {
	case "garbage-control":
		w.W.Write(verifkit.Content(c.Arg, 1+int(c.Arg%200)))
	case "unknown-type":
		w.W.Write([]byte{byte(0x20 + c.Arg%0xd0)})
	case "filedone-unknown":
		writeFileDone(w, FileDone{StreamID: c.Arg, OK: true})
	case "filedone-dup":
		writeFileDone(w, FileDone{StreamID: key, OK: true})
		writeFileDone(w, FileDone{StreamID: key, OK: true})
		writeFileDone(w, FileDone{StreamID: key, OK: c.Arg%2 == 0})
	case "resumeinfo-huge-bitmap":
		w.W.Write([]byte{controlTypeFileResumeInfo, 0, 0})
		w.W.Write(be64b(key))
		w.W.Write(be32b(3))
		w.W.Write(be32b(0xfffffff0))
	case "resumeinfo-short-bitmap":
		// the right chunk count, but a bitmap shorter (or longer) than that count needs
		for _, f := range files {
			total := uint32((f.Size + 15) / 16)
			need := int(total+7) / 8
			bl := need // files whose bitmap is a single byte get a correct report
			if need >= 2 {
				bl = 1 + int(c.Arg%uint64(need-1)) // non-empty but too short
			}
			writeFileResumeInfo(w, FileResumeInfo{FileID: f.ID, StreamID: fileKeyForItem(f), TotalChunks: total, Bitmap: bytes.Repeat([]byte{0xff}, bl), LastVerifiedChunk: total - 1, LastVerifiedHash: ^uint64(0)})
		}
		w2 := &vBufStream{}
		writeFileResumeInfo(w2, FileResumeInfo{FileID: "", StreamID: fileKeyForItem(files[0]), TotalChunks: 3, Bitmap: []byte{1, 2, 3, 4}, LastVerifiedChunk: 900})
		if c.Arg%5 == 0 {
			w.W.Write(w2.W.Bytes())
		}
	case "resumeinfo-wrong-total":
		writeFileResumeInfo(w, FileResumeInfo{FileID: files[0].ID, StreamID: fileKeyForItem(files[0]), TotalChunks: uint32(c.Arg), Bitmap: []byte{0xff}, LastVerifiedChunk: uint32(c.Arg >> 32)})
	case "resumeinfo-wrong-id":
		writeFileResumeInfo(w, FileResumeInfo{FileID: "someone-else", StreamID: key, TotalChunks: 3, Bitmap: []byte{7}, LastVerifiedChunk: 2, LastVerifiedHash: c.Arg})
	case "creditbatch-huge":
		w.W.Write(append([]byte{controlTypeCreditBatch}, be32b(0xffffffff)...))
	case "filebegin-from-receiver":
		writeFileBegin(w, FileBegin{RelPath: "x", FileSize: 1, ChunkSize: 1})
	case "truncated-record":
		writeFileDone(w, FileDone{StreamID: key, OK: false, ErrMsg: "partial"})
		bb := w.W.Bytes()
		w = &vBufStream{}
		w.W.Write(bb[:1+int(c.Arg%uint64(len(bb)-1))])
	}
	ctl.Write(w.W.Bytes())
	// let the sender act on what it was told before the peer goes away; sometimes long enough
	// for it to have sent everything (its input then ends while it waits for confirmations)
	time.Sleep([]time.Duration{25, 25, 150, 400}[int(c.Arg>>16)%4] * time.Millisecond)
	switch c.Close {
	case "close-conn":
		b.Close()
	case "fin-control":
		ctl.Close() // the receiver ends its input on the control stream; connection and data streams stay open and drained
	default:
		ctl.Close()
		b.Close() // a receiver that goes away closes its connection
	}
	closedAt := time.Now()
	select {
	case err := <-done:
		res.Returned = true
		if err != nil {
			res.Err = err.Error()
		}
	case <-time.After(2500 * time.Millisecond):
	}
	res.Dur = time.Since(closedAt)
	runtime.ReadMemStats(&ms1)
	res.Alloc = ms1.TotalAlloc - ms0.TotalAlloc
	res.Bytes = tap.Bytes()
	if !res.Returned {
		cancel()
		select {
		case <-done:
		case <-time.After(2 * time.Second):
		}
	}
	return res
}

func c15RunCase(c c15Case, dir string) c15Result {
	if c.Side == "sender" {
		return c15RunSender(c, dir)
	}
	return c15RunReceiver(c, dir)
}

// TestVerifC15Child runs a batch of staged cases; the parent attributes a crash to the journaled case.
func TestVerifC15Child(t *testing.T) {
	spec := os.Getenv("VERIF_C15_CHILD")
	if spec == "" {
		return
	}
	var seed uint64
	var from, to int
	var journal, results string
	fmt.Sscanf(spec, "%d %d %d", &seed, &from, &to)
	journal, results = os.Getenv("VERIF_C15_JOURNAL"), os.Getenv("VERIF_C15_RESULTS")
	jf, _ := os.OpenFile(journal, os.O_CREATE|os.O_WRONLY|os.O_APPEND, 0644)
	rf, _ := os.OpenFile(results, os.O_CREATE|os.O_WRONLY|os.O_APPEND, 0644)
	x := verifkit.XorShift(seed)
	dir := verifkit.ScratchDir(t, "scratch")
	for i := 0; i < to; i++ {
		c := c15Gen(&x, i)
		if i < from {
			continue
		}
		fmt.Fprintf(jf, "%d %s\n", i, c)
		r := c15RunCase(c, dir)
		fmt.Fprintf(rf, "%d\t%v\t%d\t%d\t%d\t%s\t%s\n", i, r.Returned, r.Alloc, r.Bytes, r.Dur.Milliseconds(), c, r.Err)
	}
	os.RemoveAll(dir)
	os.Exit(0)
}

func TestVerifC15Staged(t *testing.T) {
	rec := verifkit.NewRecorder("C15", "staged")
	defer rec.Flush()
	total := verifkit.EnvInt("VERIF_C15_CASES", 240)
	batch := 40
	seed := verifkit.Seed()*7919 + 13
	runChildBatches(t, rec, seed, total, batch)
}

// c15AllocAlone runs case idx of the seed's sequence in a child of its own and returns what it allocated.
func c15AllocAlone(bin, dir string, seed uint64, idx int) (uint64, bool) {
	journal := filepath.Join(dir, fmt.Sprintf("j-alone-%d.txt", idx))
	results := filepath.Join(dir, fmt.Sprintf("r-alone-%d.txt", idx))
	os.Remove(journal)
	os.Remove(results)
	cmd := execCommand(bin, "-test.run", "^TestVerifC15Child$", "-test.timeout", "120s")
	cmd.Env = append(os.Environ(), fmt.Sprintf("VERIF_C15_CHILD=%d %d %d", seed, idx, idx+1), "VERIF_C15_JOURNAL="+journal, "VERIF_C15_RESULTS="+results, "VERIF_OUT=")
	var outb bytes.Buffer
	cmd.Stdout, cmd.Stderr = &outb, &outb
	cmd.Run()
	for _, line := range readLines(results) {
		parts := splitN(line, "\t", 7)
		if len(parts) < 7 {
			continue
		}
		var i int
		var alloc uint64
		fmt.Sscan(parts[0], &i)
		fmt.Sscan(parts[2], &alloc)
		if i == idx {
			return alloc, true
		}
	}
	return 0, false
}

func runChildBatches(t *testing.T, rec *verifkit.Recorder, seed uint64, total, batch int) {
	dir := verifkit.ScratchDir(t, "scratch")
	bin := os.Getenv("VERIF_TESTBIN")
	if bin == "" {
		bin = os.Args[0]
	}
	from := 0
	for from < total {
		to := min(from+batch, total)
		journal := filepath.Join(dir, fmt.Sprintf("j-%d.txt", from))
		results := filepath.Join(dir, fmt.Sprintf("r-%d.txt", from))
		cmd := execCommand(bin, "-test.run", "^TestVerifC15Child$", "-test.timeout", "600s")
		cmd.Env = append(os.Environ(), fmt.Sprintf("VERIF_C15_CHILD=%d %d %d", seed, from, to), "VERIF_C15_JOURNAL="+journal, "VERIF_C15_RESULTS="+results, "VERIF_OUT=")
		var outb bytes.Buffer
		cmd.Stdout, cmd.Stderr = &outb, &outb
		err := cmd.Run()
		jl := readLines(journal)
		rl := readLines(results)
		for _, line := range rl {
			var idx int
			var returned bool
			var alloc uint64
			var nbytes, ms int64
			parts := splitN(line, "\t", 7)
			if len(parts) < 7 {
				continue
			}
			fmt.Sscan(parts[0], &idx)
			fmt.Sscan(parts[1], &returned)
			fmt.Sscan(parts[2], &alloc)
			fmt.Sscan(parts[3], &nbytes)
			fmt.Sscan(parts[4], &ms)
			cs, errText := parts[5], parts[6]
			rec.Eval()
			side := "receiver"
			if containsStr(cs, "Side:sender") {
				side = "sender"
			}
			mut := between(cs, "Mutation:", " ")
			rec.Class(side + "/" + mut)
			if !returned && containsStr(cs, "Close:fin-control") && side == "receiver" {
				// only the control stream was ended; the data streams and the connection are
				// still open, so the input as a whole has not ended: no verdict
				rec.Class("input-not-fully-ended")
				continue
			}
			if !returned {
				rec.Fail(t, "blocks-after-input-ended:"+side+":"+mut, fmt.Sprintf("the %s did not return within 2.5 s after the scripted peer had ended its input and closed (case %d of seed %d: %s)", side, idx, seed, cs))
				continue
			}
			bound := uint64(16<<20) + 16*uint64(nbytes)
			if alloc > bound {
				// Allocation is measured for the whole child process; a goroutine that an earlier
				// case of the batch left behind may allocate during this one. The verdict is taken
				// from a child that runs this case alone.
				if a2, ok := c15AllocAlone(bin, dir, seed, idx); ok && a2 <= bound {
					rec.Class("allocation-of-another-case-not-attributed")
					rec.Note("case %d of seed %d (%s): %d bytes measured inside its batch, %d alone", idx, seed, cs, alloc, a2)
					continue
				}
				rec.Fail(t, "alloc-out-of-proportion:"+side+":"+mut, fmt.Sprintf("the %s allocated %d bytes while %d bytes were exchanged (case %d of seed %d: %s; result: %s)", side, alloc, nbytes, idx, seed, cs, errText))
				continue
			}
			rec.NonTrivial(cs)
			if rec.SampleWanted() {
				rec.Sample(map[string]any{"case": cs, "endpoint_error": errText, "allocated": alloc, "bytes_exchanged": nbytes})
			}
		}
		if err != nil {
			// the child died: attribute to the last journaled case
			last := "?"
			if len(jl) > 0 {
				last = jl[len(jl)-1]
			}
			o := outb.String()
			pan := between(o, "panic: ", "\n")
			sig := "panic:" + between(last, "Side:", " ") + ":" + between(last, "Mutation:", " ")
			if pan == "" {
				sig = "crash:" + between(last, "Side:", " ") + ":" + between(last, "Mutation:", " ")
			}
			if len(o) > 1500 {
				o = o[:1500]
			}
			rec.Fail(t, sig, fmt.Sprintf("endpoint process died (%v) while running case %s of seed %d: panic: %s\n%s", err, last, seed, pan, o))
			// continue after the crashing case
			var li int
			fmt.Sscan(last, &li)
			from = li + 1
			continue
		}
		from = to
	}
}
