package transfer

import (
	"bytes"
	"context"
	"hash/crc32"
	"io"
	"net"
	"os"
	"os/exec"
	"strings"
	"sync"

	"github.com/sheerbytes/sheerbytes/internal/verifkit"
)

// vBufStream is an in-memory Stream: writes go to W, reads come from R (EOF at the end).
type vBufStream struct {
	mu      sync.Mutex
	R       *bytes.Reader
	W       bytes.Buffer
	MaxRead int
}

func (b *vBufStream) Read(p []byte) (int, error) {
	if b.R == nil {
		return 0, io.EOF
	}
	// MaxRead > 0: deliver at most that many bytes per call, like a transport that hands
	// data over segment by segment (a reader must not assume one Read fills its buffer)
	if b.MaxRead > 0 && len(p) > b.MaxRead {
		p = p[:b.MaxRead]
	}
	return b.R.Read(p)
}
func (b *vBufStream) Write(p []byte) (int, error) {
	b.mu.Lock()
	defer b.mu.Unlock()
	return b.W.Write(p)
}
func (b *vBufStream) Close() error { return nil }

func vReaderStream(data []byte) *vBufStream { return &vBufStream{R: bytes.NewReader(data)} }

// vConn adapts a memnet connection to transfer.Conn.
type vConn struct{ c *verifkit.MemConn }

func (v vConn) OpenStream(ctx context.Context) (Stream, error) {
	s, err := v.c.OpenStreamRaw(ctx)
	if err != nil {
		return nil, err
	}
	return s, nil
}
func (v vConn) AcceptStream(ctx context.Context) (Stream, error) {
	s, err := v.c.AcceptStreamRaw(ctx)
	if err != nil {
		return nil, err
	}
	return s, nil
}
func (v vConn) RemoteAddr() net.Addr { return v.c.RemoteAddr() }
func (v vConn) Close() error         { return v.c.Close() }

var _ Conn = vConn{}
var _ StreamIDer = (*verifkit.MemStream)(nil)

func crc32cOf(b []byte) uint32 { return crc32.Checksum(b, crc32cTable) }

func execCommand(name string, args ...string) *exec.Cmd { return exec.Command(name, args...) }

func readLines(path string) []string {
	data, err := os.ReadFile(path)
	if err != nil {
		return nil
	}
	var out []string
	for _, l := range strings.Split(string(data), "\n") {
		if l != "" {
			out = append(out, l)
		}
	}
	return out
}

func splitN(s, sep string, n int) []string { return strings.SplitN(s, sep, n) }
func containsStr(s, sub string) bool       { return strings.Contains(s, sub) }

// between returns the text after the first occurrence of a up to the next occurrence of b.
func between(s, a, b string) string {
	i := strings.Index(s, a)
	if i < 0 {
		return ""
	}
	s = s[i+len(a):]
	if j := strings.Index(s, b); j >= 0 {
		return s[:j]
	}
	return s
}
