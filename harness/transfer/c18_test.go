package transfer

import (
	"bytes"
	"errors"
	"fmt"
	"io"
	"reflect"
	"strings"
	"testing"
	"unicode/utf8"

	"github.com/sheerbytes/sheerbytes/internal/verifkit"
	"github.com/sheerbytes/sheerbytes/pkg/manifest"
	"pgregory.net/rapid"
)

// ---- C18: control-protocol round trip and framing ---------------------------------

type c18Rec struct {
	Type byte
	Msg  any // FileBegin, Credit, CreditBatch, FileEnd, FileDone, FileResumeInfo, ResumeRequest, DataStreams or nil (End)
}

var c18U64 = rapid.OneOf(
	rapid.SampledFrom([]uint64{0, 1, 255, 256, 65535, 65536, 1<<31 - 1, 1 << 31, 1<<31 + 1, 1<<32 - 1, 1 << 32, 1<<63 - 1, 1 << 63, 1<<63 + 1, 1<<64 - 1}),
	rapid.Uint64(),
)
var c18U32 = rapid.OneOf(
	rapid.SampledFrom([]uint32{0, 1, 255, 256, 65535, 65536, 1<<31 - 1, 1 << 31, 1<<32 - 1}),
	rapid.Uint32(),
)
var c18U16 = rapid.OneOf(rapid.SampledFrom([]uint16{0, 1, 255, 256, 65535}), rapid.Uint16())

func c18Len(bounds []int, max int) *rapid.Generator[int] {
	small := max
	if small > 600 {
		small = 600
	}
	// large lengths are drawn, but rarely (they dominate the run time without adding shapes)
	return rapid.OneOf(rapid.SampledFrom(bounds), rapid.IntRange(0, small), rapid.IntRange(0, 24), rapid.IntRange(0, 24),
		rapid.IntRange(0, small), rapid.IntRange(0, max), rapid.IntRange(0, 24), rapid.IntRange(0, 300))
}

// c18FFFD maps every invalid UTF-8 byte to U+FFFD, which is what encoding/json does to strings.
func c18FFFD(s string) string {
	var sb strings.Builder
	for i := 0; i < len(s); {
		r, n := utf8.DecodeRuneInString(s[i:])
		if r == utf8.RuneError && n == 1 {
			sb.WriteString("\uFFFD")
		} else {
			sb.WriteString(s[i : i+n])
		}
		i += n
	}
	return sb.String()
}

// c18Bytes draws a byte string of a boundary-biased length (arbitrary bytes).
func c18Bytes(t *rapid.T, label string, bounds []int, max int) []byte {
	n := c18Len(bounds, max).Draw(t, label+"_len")
	if n <= 64 {
		return rapid.SliceOfN(rapid.Byte(), n, n).Draw(t, label)
	}
	seed := rapid.Uint64().Draw(t, label+"_seed")
	return verifkit.Content(seed, n)
}

// c18RelPath draws a path that validateRelPath accepts (non-empty, <= 1024 bytes, no "..",
// not absolute), of boundary-biased length.
func c18RelPath(t *rapid.T) string {
	// byte lengths up to the limit and beyond it: a path the encoder refuses is fine, one it
	// emits must decode; "beyond" matters when the two sides measure length differently
	// (bytes vs characters), so some paths consist of multi-byte characters only
	n := rapid.OneOf(rapid.SampledFrom([]int{1, 2, 1023, 1024}), rapid.IntRange(1, 1024), rapid.IntRange(1, 40),
		rapid.SampledFrom([]int{1025, 1026, 1500, 2048, 3072, 4096})).Draw(t, "path_len")
	alphabet := []string{"a", "b", "Z", "0", "_", "-", " ", ".", "/", "é", "漢", "\\", "~", "\x01", "\xff"}
	switch rapid.IntRange(0, 5).Draw(t, "path_alphabet") {
	case 0:
		alphabet = []string{"é", "ü", "ß"}
	case 1:
		alphabet = []string{"漢", "字", "é", "/"}
	case 2:
		alphabet = []string{"😀", "𝄞"}
	}
	var sb strings.Builder
	seed := verifkit.XorShift(rapid.Uint64().Draw(t, "path_seed"))
	for sb.Len() < n {
		s := alphabet[int(seed.Next()%uint64(len(alphabet)))]
		if sb.Len()+len(s) > n {
			s = "x"
		}
		sb.WriteString(s)
	}
	p := sb.String()
	for strings.Contains(p, "..") {
		p = strings.Replace(p, "..", "._", -1)
	}
	if strings.HasPrefix(p, "/") {
		p = "r" + p[1:]
	}
	return p
}

func c18GenRecord(t *rapid.T) c18Rec {
	switch rapid.IntRange(0, 8).Draw(t, "rtype") {
	case 0:
		return c18Rec{controlTypeFileBegin, FileBegin{
			RelPath: c18RelPath(t), FileSize: c18U64.Draw(t, "fsize"), ChunkSize: c18U32.Draw(t, "csize"),
			StreamID: c18U64.Draw(t, "sid"), HashAlg: rapid.Byte().Draw(t, "alg"),
			StripeIndex: c18U16.Draw(t, "si"), StripeCount: c18U16.Draw(t, "sc"),
			StripeStart: c18U32.Draw(t, "ss"), StripeChunks: c18U32.Draw(t, "sch"),
		}}
	case 1:
		return c18Rec{controlTypeCredit, Credit{StreamID: c18U64.Draw(t, "sid"), Credits: c18U32.Draw(t, "cr")}}
	case 2:
		n := rapid.OneOf(rapid.SampledFrom([]int{0, 1, 2, 1000, 1023, 1024, 1025, 2049, 3000}), rapid.IntRange(0, 3000), rapid.IntRange(0, 5)).Draw(t, "nbatch")
		var entries []Credit
		seed := verifkit.XorShift(rapid.Uint64().Draw(t, "batch_seed"))
		for i := 0; i < n; i++ {
			entries = append(entries, Credit{StreamID: seed.Next(), Credits: uint32(seed.Next())})
		}
		if n > 0 && n <= 3 {
			entries[0] = Credit{StreamID: c18U64.Draw(t, "sid"), Credits: c18U32.Draw(t, "cr")}
		}
		return c18Rec{controlTypeCreditBatch, CreditBatch{Entries: entries}}
	case 3:
		return c18Rec{controlTypeFileEnd, FileEnd{StreamID: c18U64.Draw(t, "sid"), CRC32: c18U32.Draw(t, "crc")}}
	case 4:
		return c18Rec{controlTypeFileDone, FileDone{StreamID: c18U64.Draw(t, "sid"), OK: rapid.Bool().Draw(t, "ok"),
			ErrMsg: string(c18Bytes(t, "errmsg", []int{0, 1, 255, 256, 65535}, 65535))}}
	case 5:
		return c18Rec{controlTypeFileResumeInfo, FileResumeInfo{
			FileID:   string(c18Bytes(t, "fileid", []int{0, 1, 16, 255, 256, 65535}, 65535)),
			StreamID: c18U64.Draw(t, "sid"), TotalChunks: c18U32.Draw(t, "total"),
			Bitmap:            c18Bytes(t, "bitmap", []int{0, 1, 7, 8, 9, 4096, 65535, 65536, 65537, 131071, 131072, 131073, 196608, 1 << 20}, 1<<20),
			LastVerifiedChunk: c18U32.Draw(t, "lvc"), LastVerifiedHash: c18U64.Draw(t, "lvh"),
		}}
	case 6:
		return c18Rec{controlTypeResumeRequest, ResumeRequest{
			FileID: string(c18Bytes(t, "fileid", []int{0, 1, 16, 255, 256, 65535}, 65535)), StreamID: c18U64.Draw(t, "sid")}}
	case 7:
		return c18Rec{controlTypeDataStreams, DataStreams{Count: c18U16.Draw(t, "count")}}
	default:
		return c18Rec{controlTypeEnd, nil}
	}
}

func c18Encode(s Stream, r c18Rec) error {
	switch m := r.Msg.(type) {
	case FileBegin:
		return writeFileBegin(s, m)
	case Credit:
		return writeCredit(s, m)
	case CreditBatch:
		return writeCreditBatch(s, m)
	case FileEnd:
		return writeFileEnd(s, m)
	case FileDone:
		return writeFileDone(s, m)
	case FileResumeInfo:
		return writeFileResumeInfo(s, m)
	case ResumeRequest:
		return writeResumeRequest(s, m)
	case DataStreams:
		return writeDataStreams(s, m)
	case nil:
		return writeControlEnd(s)
	}
	return fmt.Errorf("unknown record %T", r.Msg)
}

// c18Norm normalises nil vs empty slices, which the statement does not distinguish.
func c18Norm(r c18Rec) c18Rec {
	switch m := r.Msg.(type) {
	case FileResumeInfo:
		if len(m.Bitmap) == 0 {
			m.Bitmap = nil
		}
		r.Msg = m
	case CreditBatch:
		if len(m.Entries) == 0 {
			m.Entries = nil
		}
		r.Msg = m
	}
	return r
}

func c18Describe(r c18Rec) string {
	s := fmt.Sprintf("%#v", r.Msg)
	if len(s) > 300 {
		s = s[:300] + fmt.Sprintf("...(%d bytes)", len(s))
	}
	return fmt.Sprintf("type=0x%02x %s", r.Type, s)
}

func c18Boundary(r c18Rec) bool {
	switch m := r.Msg.(type) {
	case FileBegin:
		return len(m.RelPath) == 1 || len(m.RelPath) >= 1023 || m.FileSize == 0 || m.FileSize == 1<<64-1 || m.ChunkSize == 1<<32-1
	case FileDone:
		return len(m.ErrMsg) == 0 || len(m.ErrMsg) == 65535 || len(m.ErrMsg) == 255 || len(m.ErrMsg) == 256
	case FileResumeInfo:
		return len(m.Bitmap) == 0 || len(m.Bitmap) >= 4096 || len(m.FileID) == 65535 || len(m.FileID) == 0
	case ResumeRequest:
		return len(m.FileID) == 0 || len(m.FileID) == 65535
	case CreditBatch:
		return len(m.Entries) == 0 || len(m.Entries) == 1000
	case Credit:
		return m.StreamID == 0 || m.StreamID == 1<<64-1
	case DataStreams:
		return m.Count == 0 || m.Count == 65535
	}
	return false
}

func TestVerifC18Records(t *testing.T) {
	rec := verifkit.NewRecorder("C18", "records")
	defer rec.Flush()
	rapid.Check(t, func(rt *rapid.T) {
		n := rapid.OneOf(rapid.Just(1), rapid.IntRange(1, 30)).Draw(rt, "nrecords")
		var seq []c18Rec
		w := &vBufStream{}
		boundary := false
		types := map[byte]bool{}
		for i := 0; i < n; i++ {
			r := c18GenRecord(rt)
			before := w.W.Len()
			if err := c18Encode(w, r); err != nil {
				// encoder refusal (e.g. path validation) is not a failure, but it must not leave bytes behind
				if w.W.Len() != before {
					rec.Fail(rt, "encoder-partial-output", fmt.Sprintf("encoder refused %s with %v after writing %d bytes", c18Describe(r), err, w.W.Len()-before))
					return
				}
				rec.Class("encoder-refused")
				continue
			}
			seq = append(seq, r)
			types[r.Type] = true
			boundary = boundary || c18Boundary(r)
			rec.Class(fmt.Sprintf("type-0x%02x", r.Type))
		}
		rec.Eval()
		data := w.W.Bytes()
		rd := vReaderStream(data)
		rd.MaxRead = rapid.SampledFrom([]int{0, 0, 1, 3, 100, 1200}).Draw(rt, "segment")
		if rd.MaxRead > 0 {
			rec.Class("segmented-delivery")
		}
		for i, want := range seq {
			typ, msg, err := readControlMessage(rd)
			if err != nil {
				rec.Fail(rt, "decode-error", fmt.Sprintf("record %d/%d %s: decode failed: %v", i, len(seq), c18Describe(want), err))
				return
			}
			got := c18Norm(c18Rec{typ, msg})
			if !reflect.DeepEqual(got, c18Norm(want)) {
				rec.Fail(rt, fmt.Sprintf("roundtrip-mismatch:0x%02x", want.Type), fmt.Sprintf("record %d/%d: encoded %s decoded %s", i, len(seq), c18Describe(want), c18Describe(got)))
				return
			}
		}
		if rd.R.Len() != 0 {
			rec.Fail(rt, "trailing-bytes", fmt.Sprintf("%d of %d bytes left after decoding %d records", rd.R.Len(), len(data), len(seq)))
			return
		}
		if _, _, err := readControlMessage(rd); !errors.Is(err, io.EOF) {
			rec.Fail(rt, "no-eof-after-sequence", fmt.Sprintf("read after the last record returned %v", err))
			return
		}
		if boundary || len(types) >= 3 {
			var sb strings.Builder
			for _, r := range seq {
				fmt.Fprintf(&sb, "%02x:%d;", r.Type, len(fmt.Sprint(r.Msg)))
			}
			rec.NonTrivial(sb.String())
		}
		if rec.SampleWanted() && len(seq) > 0 {
			d := []string{}
			for _, r := range seq {
				d = append(d, c18Describe(r))
				if len(d) >= 4 {
					break
				}
			}
			rec.Sample(map[string]any{"records": len(seq), "bytes": len(data), "first": d})
		}
	})
}

func c18GenManifest(t *rapid.T, allowInvalidUTF8 bool) manifest.Manifest {
	n := rapid.OneOf(rapid.SampledFrom([]int{0, 1, 200}), rapid.IntRange(0, 200), rapid.IntRange(0, 6)).Draw(t, "items")
	m := manifest.Manifest{
		Root:        rapid.SampledFrom([]string{"", "root", "sel ection", "漢字", "a\"b\\c", "<&>"}).Draw(t, "root"),
		TotalBytes:  int64(c18U64.Draw(t, "total") >> 1),
		FileCount:   rapid.IntRange(0, 1<<31-1).Draw(t, "fc"),
		FolderCount: rapid.IntRange(0, 1<<31-1).Draw(t, "dc"),
		Items:       []manifest.FileItem{},
	}
	if allowInvalidUTF8 && rapid.IntRange(0, 2).Draw(t, "raw_root") == 0 {
		// the name of the sent folder is a file name like any other: bytes, not necessarily UTF-8
		m.Root = rapid.SampledFrom([]string{"M\xe4rz-Fotos", "\xff", "caf\xe9\xe8", "ok\xc3", "\xed\xa0\x80x"}).Draw(t, "root_bytes")
	}
	for i := 0; i < n; i++ {
		p := c18RelPath(t)
		if !allowInvalidUTF8 && !utf8.ValidString(p) {
			p = strings.ToValidUTF8(p, "?")
		}
		it := manifest.FileItem{
			RelPath: p,
			Size:    int64(c18U64.Draw(t, "isize") >> 1),
			ModTime: int64(c18U64.Draw(t, "mtime")>>1) - 1<<40,
			IsDir:   rapid.Bool().Draw(t, "dir"),
			ID:      rapid.StringMatching(`[0-9a-f]{0,16}`).Draw(t, "id"),
		}
		m.Items = append(m.Items, it)
	}
	return m
}

func TestVerifC18Header(t *testing.T) {
	rec := verifkit.NewRecorder("C18", "header")
	defer rec.Flush()
	rapid.Check(t, func(rt *rapid.T) {
		invalid := rapid.IntRange(0, 3).Draw(rt, "invalid_utf8") == 0
		m := c18GenManifest(rt, invalid)
		w := &vBufStream{}
		if err := writeControlHeader(w, m); err != nil {
			rec.Class("encoder-refused")
			return
		}
		nrec := rapid.IntRange(0, 3).Draw(rt, "trailing_records")
		var seq []c18Rec
		for i := 0; i < nrec; i++ {
			r := c18GenRecord(rt)
			if c18Encode(w, r) == nil {
				seq = append(seq, r)
			}
		}
		rec.Eval()
		hasInvalid := !utf8.ValidString(m.Root)
		for _, it := range m.Items {
			if !utf8.ValidString(it.RelPath) {
				hasInvalid = true
			}
		}
		if hasInvalid {
			rec.Class("manifest-with-invalid-utf8-name")
		}
		rd := vReaderStream(w.W.Bytes())
		rd.MaxRead = rapid.SampledFrom([]int{0, 0, 1, 3, 100, 1200}).Draw(rt, "segment")
		got, err := readControlHeader(rd)
		if err != nil {
			sig := "header-decode-error"
			if hasInvalid {
				// bytes that are not UTF-8 come back as U+FFFD (3 bytes each): the altered path may
				// additionally exceed the path limit and be refused - same root cause
				sig = "manifest-json-invalid-utf8"
			}
			rec.Fail(rt, sig, fmt.Sprintf("manifest with %d items: %v", len(m.Items), err))
			return
		}
		if got.Items == nil {
			got.Items = []manifest.FileItem{}
		}
		if !reflect.DeepEqual(got, m) {
			sig := "header-roundtrip-mismatch"
			detail := fmt.Sprintf("manifest with %d items decoded differently", len(m.Items))
			onlyUTF8 := len(got.Items) == len(m.Items) && got.Root == m.Root
			shown := false
			for i := range m.Items {
				if i < len(got.Items) && got.Items[i] != m.Items[i] {
					if !shown {
						d := fmt.Sprintf("; item %d: sent %+q got %+q", i, fmt.Sprint(m.Items[i]), fmt.Sprint(got.Items[i]))
						if len(d) > 500 {
							d = d[:500] + "..."
						}
						detail += d
						shown = true
					}
					norm := m.Items[i]
					norm.RelPath = c18FFFD(norm.RelPath)
					if utf8.ValidString(m.Items[i].RelPath) || got.Items[i] != norm {
						onlyUTF8 = false
					}
				}
			}
			if onlyUTF8 && shown {
				sig = "manifest-json-invalid-utf8"
			}
			rec.Fail(rt, sig, detail)
			return
		}
		for i, want := range seq {
			typ, msg, err := readControlMessage(rd)
			if err != nil || !reflect.DeepEqual(c18Norm(c18Rec{typ, msg}), c18Norm(want)) {
				rec.Fail(rt, "header-framing", fmt.Sprintf("record %d after the header decoded wrongly (err=%v): want %s", i, err, c18Describe(want)))
				return
			}
		}
		if rd.R.Len() != 0 {
			rec.Fail(rt, "trailing-bytes", fmt.Sprintf("%d bytes left after header+records", rd.R.Len()))
			return
		}
		if len(m.Items) == 0 || len(m.Items) >= 100 || nrec > 0 || hasInvalid {
			rec.NonTrivial(fmt.Sprintf("%d/%d/%v/%s", len(m.Items), nrec, hasInvalid, m.Root))
		}
		if rec.SampleWanted() {
			rec.Sample(map[string]any{"items": len(m.Items), "root": m.Root, "trailing_records": nrec, "bytes": w.W.Len()})
		}
	})
}

// TestVerifC18Reencode is the converse direction: whatever bytes decode successfully
// re-encode to bytes that decode to the same value (idempotence), so the decoder accepts
// nothing the encoder could not have meant.
func TestVerifC18Reencode(t *testing.T) {
	rec := verifkit.NewRecorder("C18", "reencode")
	defer rec.Flush()
	types := []byte{controlTypeFileBegin, controlTypeCredit, controlTypeFileEnd, controlTypeFileDone, controlTypeFileResumeInfo,
		controlTypeResumeRequest, controlTypeCreditBatch, controlTypeDataStreams, controlTypeEnd}
	rapid.Check(t, func(rt *rapid.T) {
		typ := rapid.SampledFrom(types).Draw(rt, "type")
		body := rapid.SliceOfN(rapid.Byte(), 0, 80).Draw(rt, "body")
		// keep length prefixes small so that random bodies decode often
		if len(body) >= 2 && rapid.Bool().Draw(rt, "small_len") {
			body[0] = 0
			body[1] %= 24
		}
		// 32-bit length prefixes are kept small by construction: the decoders allocate what the
		// prefix says before reading (owned by C15); here the subject is value equality
		if typ == controlTypeCreditBatch && len(body) >= 4 {
			body[0], body[1], body[2] = 0, 0, 0
			body[3] %= 6
		}
		if typ == controlTypeFileResumeInfo && len(body) >= 2 {
			body[0] = 0
			body[1] %= 24
			if off := 2 + int(body[1]) + 12; off+4 <= len(body) {
				body[off], body[off+1], body[off+2] = 0, 0, 0
				body[off+3] %= 40
			}
		}
		rec.Eval()
		data := append([]byte{typ}, body...)
		rd := vReaderStream(data)
		gt, gm, err := readControlMessage(rd)
		if err != nil {
			rec.Class("undecodable")
			return
		}
		rec.Class("decoded")
		consumed := len(data) - rd.R.Len()
		w := &vBufStream{}
		if err := c18Encode(w, c18Rec{gt, gm}); err != nil {
			rec.Class("decoded-but-encoder-refuses")
			return
		}
		rd2 := vReaderStream(w.W.Bytes())
		gt2, gm2, err := readControlMessage(rd2)
		if err != nil || !reflect.DeepEqual(c18Norm(c18Rec{gt, gm}), c18Norm(c18Rec{gt2, gm2})) {
			rec.Fail(rt, "reencode-mismatch", fmt.Sprintf("bytes %x decoded to %s; re-encoded form decodes to %s (err=%v)", data, c18Describe(c18Rec{gt, gm}), c18Describe(c18Rec{gt2, gm2}), err))
			return
		}
		if rd2.R.Len() != 0 {
			rec.Fail(rt, "trailing-bytes", "re-encoded record not consumed completely")
			return
		}
		if typ != controlTypeFileDone && !bytes.Equal(w.W.Bytes(), data[:consumed]) {
			// FileDone's OK byte is a boolean (any value != 1 reads as false), all other records are canonical
			rec.Class("non-canonical-accepted") // observation only: the statement does not demand canonical decoding
		}
		rec.NonTrivial(fmt.Sprintf("%x", data[:consumed]))
		if rec.SampleWanted() {
			rec.Sample(map[string]any{"bytes": fmt.Sprintf("%x", data[:consumed]), "decoded": c18Describe(c18Rec{gt, gm})})
		}
	})
}
