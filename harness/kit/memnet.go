package verifkit

import (
	"context"
	"errors"
	"fmt"
	"io"
	"net"
	"os"
	"sync"
	"time"
)

// memnet: an in-memory multi-stream connection pair written for the harness.
//
// It mirrors what internal/transferquic exposes of a quic-go connection:
//   - streams are bidirectional, buffered (a writer never waits for the reader
//     unless a flow-control Window is configured), carry a StreamID and support
//     read/write deadlines;
//   - Stream.Close sends FIN (peer reads io.EOF after draining) and makes later
//     local Read/Write return io.ErrClosedPipe; it does not unblock a local Read;
//   - Conn.Close closes with application code 0: the peer's operations fail with
//     "Application error 0x0 (remote)", local ones with "Application error 0x0 (local)";
//   - optional QUIC stream visibility: a stream is delivered to the peer's
//     AcceptStream only once it carried a byte or FIN, or a higher-numbered stream of
//     the same opener became visible (RFC 9000 section 3.2; observed with quic-go).
//
// On top of that it offers a fault plan (fault at byte offset n of stream s in one
// direction) and a tap that records every write.

// Dir is the direction of a byte flow: AtoB = written by the A end (dialer).
type Dir int

const (
	AtoB Dir = 0
	BtoA Dir = 1
)

func (d Dir) String() string {
	if d == AtoB {
		return "A>B"
	}
	return "B>A"
}

// FaultKind enumerates injected transport faults.
type FaultKind int

const (
	FaultNone     FaultKind = iota
	FaultAbrupt             // connection lost: every pending and later operation on both ends fails with an idle-timeout error
	FaultCloseByA           // A end closes the connection with code 0 (B sees "remote", A sees "local")
	FaultCloseByB           // B end closes the connection with code 0
	FaultFlipBit            // one bit of the byte at the offset is inverted in flight
	FaultTruncate           // the stream direction ends (FIN) at the offset; later bytes are discarded
)

func (k FaultKind) String() string {
	switch k {
	case FaultNone:
		return "none"
	case FaultAbrupt:
		return "abrupt-loss"
	case FaultCloseByA:
		return "close-by-A"
	case FaultCloseByB:
		return "close-by-B"
	case FaultFlipBit:
		return "flip-bit"
	case FaultTruncate:
		return "truncate-fin"
	}
	return "?"
}

// Fault describes one fault: it strikes when the byte at Offset (0-based) of the
// Ordinal-th stream opened by A (0 = first = control stream) is about to be delivered in
// direction Dir. Offset equal to the number of bytes that ever flow means "never".
type Fault struct {
	Kind    FaultKind
	Ordinal int // index among the streams opened by the A end, in open order
	Dir     Dir
	Offset  int64
	Bit     uint // for FaultFlipBit: which bit (0-7)
}

// TapEvent is one recorded write.
type TapEvent struct {
	Seq     int
	Ordinal int // stream ordinal (open order at the A end; B-opened streams get 1000+)
	Dir     Dir
	Data    []byte
	FIN     bool
}

// Tap records all writes of a pair in global order.
type Tap struct {
	mu     sync.Mutex
	Events []TapEvent
	bytes  int64
}

// Bytes returns the number of payload bytes recorded so far.
func (t *Tap) Bytes() int64 {
	t.mu.Lock()
	defer t.mu.Unlock()
	return t.bytes
}

// Snapshot returns a copy of the events.
func (t *Tap) Snapshot() []TapEvent {
	t.mu.Lock()
	defer t.mu.Unlock()
	out := make([]TapEvent, len(t.Events))
	copy(out, t.Events)
	return out
}

// StreamBytes concatenates the bytes of one stream direction.
func (t *Tap) StreamBytes(ordinal int, d Dir) []byte {
	t.mu.Lock()
	defer t.mu.Unlock()
	var out []byte
	for _, e := range t.Events {
		if e.Ordinal == ordinal && e.Dir == d {
			out = append(out, e.Data...)
		}
	}
	return out
}

// Ordinals returns the sorted list of stream ordinals seen and byte count per (ordinal,dir).
func (t *Tap) Counts() map[[2]int]int64 {
	t.mu.Lock()
	defer t.mu.Unlock()
	m := map[[2]int]int64{}
	for _, e := range t.Events {
		m[[2]int{e.Ordinal, int(e.Dir)}] += int64(len(e.Data))
	}
	return m
}

// MemOptions configure a pair.
type MemOptions struct {
	QUICVisibility bool
	Window         int // max unread bytes per stream direction; 0 = unlimited
	Segment        int // >0: a Read returns at most this many bytes (segment-wise delivery like QUIC frames)
	Tap            *Tap
	Fault          *Fault
	// OnFault is called (outside the lock) once when the fault strikes.
	OnFault func()
	// Latency, when set, is asked for every delivered piece (stream ordinal, direction, offset
	// of its first byte); a positive answer keeps that piece - and, in order, everything
	// behind it on the same stream direction, FIN included - unreadable for that long without
	// blocking the writer (in-flight delay of one stream).
	Latency func(ordinal int, d Dir, off int64) time.Duration
	// WriteHook, when set, is called before every Write outside the lock (may block: schedule control).
	WriteHook func(ordinal int, d Dir, n int)
	// Mutate, when set, may return altered bytes (same length) for a chunk about to be
	// delivered at stream offset off (in-flight corruption). Called under the pair's lock.
	Mutate func(ordinal int, d Dir, off int64, p []byte) []byte
}

type memShared struct {
	mu        sync.Mutex
	cond      *sync.Cond
	opts      MemOptions
	seq       int
	faultHit  bool
	lastMove  time.Time
	moved     int64
	connErr   [2]error // error seen by end 0 (A) / 1 (B) once the connection is dead
	nextOrdA  int
	nextOrdB  int
	streamsBy [2][]*memHalfPair // streams opened by A / by B in open order
}

// memHalfPair is one bidirectional stream: two queues.
type memHalfPair struct {
	id       uint64
	ordinal  int
	opener   int          // 0 = A, 1 = B
	q        [2]*memQueue // q[AtoB], q[BtoA]
	visible  bool
	accepted bool
	written  [2]int64 // bytes offered per direction (for fault offsets)
}

type memQueue struct {
	buf       []byte
	fin       bool
	dead      bool      // truncated: discard further writes
	holdUntil time.Time // Latency: release time of the latest piece (later pieces and the FIN do not overtake it)
	segs      []memSeg  // Latency: delivered pieces with their release times
}

type memSeg struct {
	n  int
	at time.Time
}

// MemConn is one end of a pair.
type MemConn struct {
	sh     *memShared
	side   int // 0 = A, 1 = B
	closed bool
}

// MemStream is one end of a stream.
type MemStream struct {
	sh          *memShared
	hp          *memHalfPair
	side        int
	localClosed bool
	rdl, wdl    time.Time
}

// NewMemPair creates a connected pair (A = dialer / opener of the first stream, B = acceptor).
func NewMemPair(o MemOptions) (*MemConn, *MemConn) {
	sh := &memShared{opts: o, lastMove: time.Now()}
	sh.cond = sync.NewCond(&sh.mu)
	return &MemConn{sh: sh, side: 0}, &MemConn{sh: sh, side: 1}
}

var errIdleTimeout = errors.New("timeout: no recent network activity")

func appErr(remote bool) error {
	if remote {
		return errors.New("Application error 0x0 (remote)")
	}
	return errors.New("Application error 0x0 (local)")
}

func (sh *memShared) wakeAfter(ctx context.Context) (stop func() bool) {
	return context.AfterFunc(ctx, func() {
		sh.mu.Lock()
		sh.cond.Broadcast()
		sh.mu.Unlock()
	})
}

// killLocked makes the connection dead for both ends.
func (sh *memShared) killLocked(errA, errB error) {
	if sh.connErr[0] == nil {
		sh.connErr[0] = errA
	}
	if sh.connErr[1] == nil {
		sh.connErr[1] = errB
	}
	sh.cond.Broadcast()
}

// Abort simulates abrupt connection loss.
func (c *MemConn) Abort() {
	c.sh.mu.Lock()
	c.sh.killLocked(errIdleTimeout, errIdleTimeout)
	c.sh.mu.Unlock()
}

// Close closes the connection with application code 0 from this end.
func (c *MemConn) Close() error {
	c.sh.mu.Lock()
	defer c.sh.mu.Unlock()
	if c.closed {
		return nil
	}
	c.closed = true
	if c.side == 0 {
		c.sh.killLocked(appErr(false), appErr(true))
	} else {
		c.sh.killLocked(appErr(true), appErr(false))
	}
	return nil
}

// Dead reports whether the connection has been closed or lost.
func (c *MemConn) Dead() bool {
	c.sh.mu.Lock()
	defer c.sh.mu.Unlock()
	return c.sh.connErr[c.side] != nil
}

// RemoteAddr returns a dummy address.
func (c *MemConn) RemoteAddr() net.Addr {
	return &net.UDPAddr{IP: net.IPv4(127, 0, 0, 1), Port: 1 + c.side}
}

// Progress returns bytes moved so far and the time of the last movement (idle detection).
func (c *MemConn) Progress() (int64, time.Time) {
	c.sh.mu.Lock()
	defer c.sh.mu.Unlock()
	return c.sh.moved, c.sh.lastMove
}

// OpenStreamRaw opens a stream.
func (c *MemConn) OpenStreamRaw(ctx context.Context) (*MemStream, error) {
	if err := ctx.Err(); err != nil {
		return nil, err
	}
	sh := c.sh
	sh.mu.Lock()
	defer sh.mu.Unlock()
	if c.closed {
		return nil, io.ErrClosedPipe
	}
	if e := sh.connErr[c.side]; e != nil {
		return nil, e
	}
	hp := &memHalfPair{opener: c.side, q: [2]*memQueue{{}, {}}}
	if c.side == 0 {
		hp.ordinal = sh.nextOrdA
		hp.id = uint64(sh.nextOrdA) * 4
		sh.nextOrdA++
	} else {
		hp.ordinal = 1000 + sh.nextOrdB
		hp.id = uint64(sh.nextOrdB)*4 + 1
		sh.nextOrdB++
	}
	sh.streamsBy[c.side] = append(sh.streamsBy[c.side], hp)
	if !sh.opts.QUICVisibility {
		hp.visible = true
		sh.cond.Broadcast()
	}
	return &MemStream{sh: sh, hp: hp, side: c.side}, nil
}

// AcceptStreamRaw waits for the next visible stream opened by the peer.
func (c *MemConn) AcceptStreamRaw(ctx context.Context) (*MemStream, error) {
	sh := c.sh
	stop := sh.wakeAfter(ctx)
	defer stop()
	sh.mu.Lock()
	defer sh.mu.Unlock()
	peer := 1 - c.side
	for {
		if c.closed {
			return nil, io.ErrClosedPipe
		}
		for _, hp := range sh.streamsBy[peer] {
			if hp.accepted {
				continue
			}
			if hp.visible {
				hp.accepted = true
				return &MemStream{sh: sh, hp: hp, side: c.side}, nil
			}
			break // in order only
		}
		if e := sh.connErr[c.side]; e != nil {
			return nil, e
		}
		if err := ctx.Err(); err != nil {
			return nil, err
		}
		sh.cond.Wait()
	}
}

// makeVisibleLocked marks hp and all lower-numbered streams of the same opener visible.
func (sh *memShared) makeVisibleLocked(hp *memHalfPair) {
	if hp.visible {
		return
	}
	for _, o := range sh.streamsBy[hp.opener] {
		o.visible = true
		if o == hp {
			break
		}
	}
	sh.cond.Broadcast()
}

// StreamID returns the QUIC-like stream id.
func (s *MemStream) StreamID() uint64 { return s.hp.id }

// Ordinal returns the open-order index of the stream.
func (s *MemStream) Ordinal() int { return s.hp.ordinal }

func (s *MemStream) dirOut() Dir {
	if s.side == 0 {
		return AtoB
	}
	return BtoA
}

type deadlineErr struct{}

func (deadlineErr) Error() string   { return "deadline exceeded" }
func (deadlineErr) Timeout() bool   { return true }
func (deadlineErr) Temporary() bool { return true }
func (deadlineErr) Unwrap() error   { return os.ErrDeadlineExceeded }

// Write implements io.Writer.
func (s *MemStream) Write(p []byte) (int, error) {
	sh := s.sh
	d := s.dirOut()
	if h := sh.opts.WriteHook; h != nil {
		h(s.hp.ordinal, d, len(p))
	}
	var onFault func()
	sh.mu.Lock()
	defer func() {
		sh.mu.Unlock()
		if onFault != nil {
			onFault()
		}
	}()
	if s.localClosed {
		return 0, io.ErrClosedPipe
	}
	q := s.hp.q[d]
	written := 0
	for written < len(p) {
		if e := sh.connErr[s.side]; e != nil {
			return written, e
		}
		if q.fin && !q.dead {
			return written, io.ErrClosedPipe
		}
		if !s.wdl.IsZero() && !time.Now().Before(s.wdl) {
			return written, deadlineErr{}
		}
		room := len(p) - written
		if w := sh.opts.Window; w > 0 && !q.dead {
			room = w - len(q.buf)
			if room <= 0 {
				s.waitLocked(s.wdl)
				continue
			}
			if room > len(p)-written {
				room = len(p) - written
			}
		}
		chunk := p[written : written+room]
		// fault handling
		if f := sh.opts.Fault; f != nil && !sh.faultHit && f.Kind != FaultNone && f.Dir == d && f.Ordinal == s.hp.ordinal {
			off := s.hp.written[d]
			if f.Offset >= off && f.Offset < off+int64(len(chunk)) {
				pre := int(f.Offset - off)
				sh.faultHit = true
				onFault = sh.opts.OnFault
				switch f.Kind {
				case FaultFlipBit:
					cp := make([]byte, len(chunk))
					copy(cp, chunk)
					cp[pre] ^= 1 << (f.Bit % 8)
					chunk = cp
				case FaultTruncate:
					s.deliverLocked(q, d, chunk[:pre])
					q.fin = true
					q.dead = true
					sh.makeVisibleLocked(s.hp)
					sh.tapLocked(s.hp.ordinal, d, nil, true)
					sh.cond.Broadcast()
					written += len(chunk)
					continue
				case FaultAbrupt:
					s.deliverLocked(q, d, chunk[:pre])
					sh.killLocked(errIdleTimeout, errIdleTimeout)
					return written + pre, sh.connErr[s.side]
				case FaultCloseByA:
					s.deliverLocked(q, d, chunk[:pre])
					sh.killLocked(appErr(false), appErr(true))
					return written + pre, sh.connErr[s.side]
				case FaultCloseByB:
					s.deliverLocked(q, d, chunk[:pre])
					sh.killLocked(appErr(true), appErr(false))
					return written + pre, sh.connErr[s.side]
				}
			}
		}
		if q.dead {
			s.hp.written[d] += int64(len(chunk))
			written += len(chunk)
			continue
		}
		s.deliverLocked(q, d, chunk)
		written += len(chunk)
	}
	return written, nil
}

func (s *MemStream) deliverLocked(q *memQueue, d Dir, chunk []byte) {
	sh := s.sh
	off := s.hp.written[d]
	s.hp.written[d] += int64(len(chunk))
	if len(chunk) == 0 {
		return
	}
	if m := sh.opts.Mutate; m != nil {
		if alt := m(s.hp.ordinal, d, off, chunk); len(alt) == len(chunk) {
			chunk = alt
		}
	}
	if l := sh.opts.Latency; l != nil {
		at := time.Now()
		if hold := l(s.hp.ordinal, d, off); hold > 0 {
			at = at.Add(hold)
			time.AfterFunc(hold+time.Millisecond, func() {
				sh.mu.Lock()
				sh.cond.Broadcast()
				sh.mu.Unlock()
			})
		}
		if at.Before(q.holdUntil) {
			at = q.holdUntil // order is kept: nothing overtakes an earlier piece
		}
		q.holdUntil = at
		q.segs = append(q.segs, memSeg{n: len(chunk), at: at})
	}
	q.buf = append(q.buf, chunk...)
	sh.moved += int64(len(chunk))
	sh.lastMove = time.Now()
	if s.side == s.hp.opener {
		sh.makeVisibleLocked(s.hp)
	}
	sh.tapLocked(s.hp.ordinal, d, chunk, false)
	sh.cond.Broadcast()
}

func (sh *memShared) tapLocked(ordinal int, d Dir, data []byte, fin bool) {
	t := sh.opts.Tap
	if t == nil {
		return
	}
	cp := make([]byte, len(data))
	copy(cp, data)
	t.mu.Lock()
	t.Events = append(t.Events, TapEvent{Seq: sh.seq, Ordinal: ordinal, Dir: d, Data: cp, FIN: fin})
	t.bytes += int64(len(data))
	t.mu.Unlock()
	sh.seq++
}

// waitLocked waits on the condition, waking up at the deadline if one is set.
func (s *MemStream) waitLocked(deadline time.Time) {
	sh := s.sh
	if deadline.IsZero() {
		sh.cond.Wait()
		return
	}
	d := time.Until(deadline)
	if d <= 0 {
		return
	}
	t := time.AfterFunc(d, func() {
		sh.mu.Lock()
		sh.cond.Broadcast()
		sh.mu.Unlock()
	})
	sh.cond.Wait()
	t.Stop()
}

// Read implements io.Reader.
func (s *MemStream) Read(p []byte) (int, error) {
	sh := s.sh
	d := 1 - s.dirOut()
	sh.mu.Lock()
	defer sh.mu.Unlock()
	q := s.hp.q[d]
	for {
		if s.localClosed {
			return 0, io.ErrClosedPipe
		}
		if len(p) == 0 {
			return 0, nil
		}
		// like quic-go: once the connection is closed or lost, Read fails at once, even
		// if received data is still buffered
		if e := sh.connErr[s.side]; e != nil {
			return 0, e
		}
		avail := len(q.buf)
		held := false
		if sh.opts.Latency != nil {
			now := time.Now()
			avail = 0
			for _, sg := range q.segs {
				if sg.at.After(now) {
					held = true
					break
				}
				avail += sg.n
			}
			if len(q.segs) == 0 && now.Before(q.holdUntil) {
				held = true // only the FIN is still in flight
			}
		}
		if avail > 0 {
			if seg := sh.opts.Segment; seg > 0 && len(p) > seg {
				p = p[:seg]
			}
			if len(p) > avail {
				p = p[:avail]
			}
			n := copy(p, q.buf)
			for left := n; left > 0 && len(q.segs) > 0; {
				if q.segs[0].n <= left {
					left -= q.segs[0].n
					q.segs = q.segs[1:]
				} else {
					q.segs[0].n -= left
					left = 0
				}
			}
			q.buf = q.buf[n:]
			if len(q.buf) == 0 {
				q.buf = nil
			}
			sh.cond.Broadcast()
			return n, nil
		}
		if q.fin && !held {
			return 0, io.EOF
		}
		if !s.rdl.IsZero() && !time.Now().Before(s.rdl) {
			return 0, deadlineErr{}
		}
		s.waitLocked(s.rdl)
	}
}

// Close sends FIN and closes the local end.
func (s *MemStream) Close() error {
	sh := s.sh
	sh.mu.Lock()
	defer sh.mu.Unlock()
	if s.localClosed {
		return nil
	}
	s.localClosed = true
	d := s.dirOut()
	q := s.hp.q[d]
	if !q.fin {
		q.fin = true
		if sh.connErr[s.side] == nil {
			if s.side == s.hp.opener {
				sh.makeVisibleLocked(s.hp)
			}
			sh.tapLocked(s.hp.ordinal, d, nil, true)
		}
	}
	sh.cond.Broadcast()
	return nil
}

// SetReadDeadline sets the read deadline.
func (s *MemStream) SetReadDeadline(t time.Time) error {
	s.sh.mu.Lock()
	s.rdl = t
	s.sh.cond.Broadcast()
	s.sh.mu.Unlock()
	return nil
}

// SetWriteDeadline sets the write deadline.
func (s *MemStream) SetWriteDeadline(t time.Time) error {
	s.sh.mu.Lock()
	s.wdl = t
	s.sh.cond.Broadcast()
	s.sh.mu.Unlock()
	return nil
}

// SetDeadline sets both deadlines.
func (s *MemStream) SetDeadline(t time.Time) error {
	s.sh.mu.Lock()
	s.rdl, s.wdl = t, t
	s.sh.cond.Broadcast()
	s.sh.mu.Unlock()
	return nil
}

// FaultStruck reports whether the configured fault has fired.
func (c *MemConn) FaultStruck() bool {
	c.sh.mu.Lock()
	defer c.sh.mu.Unlock()
	return c.sh.faultHit
}

// DescribeFault renders a fault for logs.
func DescribeFault(f *Fault) string {
	if f == nil || f.Kind == FaultNone {
		return "no-fault"
	}
	return fmt.Sprintf("%s@stream#%d/%s/off=%d/bit=%d", f.Kind, f.Ordinal, f.Dir, f.Offset, f.Bit)
}
