// Package verifkit is the shared support library of the /verif harness. It is
// compiled into the repository under test through a build overlay as
// internal/verifkit and has no dependency on the repository's own packages.
package verifkit

import (
	"bufio"
	"encoding/json"
	"fmt"
	"hash/fnv"
	"os"
	"sort"
	"strconv"
	"strings"
	"sync"
	"time"
)

// Recorder collects what a check actually explored and is flushed to the JSON side
// file named by $VERIF_OUT, which the driver (bin/check) merges into the evidence.
type Recorder struct {
	mu         sync.Mutex
	Property   string
	Unit       string
	start      time.Time
	evals      int64
	classes    map[string]int64
	nontrivial map[uint64]struct{}
	ntOverflow int64
	samples    []any
	sampleCap  int
	known      map[string]string // key -> text (from known_findings.txt)
	knownHits  map[string]int64
	knownEx    map[string]string
	violations []Violation
	notes      []string
	exhaustive bool
	extra      map[string]any
}

// Violation is a property violation found by a check.
type Violation struct {
	Signature string `json:"signature"`
	Detail    string `json:"detail"`
	Replay    string `json:"replay,omitempty"`
}

const maxFingerprints = 400000

// NewRecorder creates a recorder for one test unit of one property.
func NewRecorder(property, unit string) *Recorder {
	r := &Recorder{
		Property:   property,
		Unit:       unit,
		start:      time.Now(),
		classes:    map[string]int64{},
		nontrivial: map[uint64]struct{}{},
		sampleCap:  8,
		known:      map[string]string{},
		knownHits:  map[string]int64{},
		knownEx:    map[string]string{},
		extra:      map[string]any{},
	}
	r.loadKnown()
	return r
}

func (r *Recorder) loadKnown() {
	path := os.Getenv("VERIF_KNOWN")
	if path == "" {
		return
	}
	f, err := os.Open(path)
	if err != nil {
		return
	}
	defer f.Close()
	sc := bufio.NewScanner(f)
	sc.Buffer(make([]byte, 1<<20), 1<<20)
	for sc.Scan() {
		line := strings.TrimSpace(sc.Text())
		if !strings.HasPrefix(line, "known:") {
			continue
		}
		fields := strings.Fields(line[len("known:"):])
		prop, key := "", ""
		rest := []string{}
		for _, f := range fields {
			switch {
			case strings.HasPrefix(f, "property=") && prop == "":
				prop = f[len("property="):]
			case strings.HasPrefix(f, "key=") && key == "":
				key = f[len("key="):]
			default:
				rest = append(rest, f)
			}
		}
		if prop == r.Property && key != "" {
			r.known[key] = strings.Join(rest, " ")
		}
	}
}

// IsKnown reports whether a failure signature is listed as a known finding.
func (r *Recorder) IsKnown(sig string) bool {
	r.mu.Lock()
	defer r.mu.Unlock()
	_, ok := r.known[sig]
	return ok
}

// KnownHit records that a listed known finding was reproduced by this run.
func (r *Recorder) KnownHit(sig, example string) {
	r.mu.Lock()
	defer r.mu.Unlock()
	r.knownHits[sig]++
	if _, ok := r.knownEx[sig]; !ok {
		if len(example) > 600 {
			example = example[:600] + "..."
		}
		r.knownEx[sig] = example
	}
}

// Eval counts one executed case.
func (r *Recorder) Eval() {
	r.mu.Lock()
	r.evals++
	r.mu.Unlock()
}

// EvalN counts n executed cases.
func (r *Recorder) EvalN(n int64) {
	r.mu.Lock()
	r.evals += n
	r.mu.Unlock()
}

// Class increments a named class counter (generator-distribution bookkeeping).
func (r *Recorder) Class(name string) {
	r.mu.Lock()
	r.classes[name]++
	r.mu.Unlock()
}

// ClassN adds n to a class counter.
func (r *Recorder) ClassN(name string, n int64) {
	r.mu.Lock()
	r.classes[name] += n
	r.mu.Unlock()
}

// NonTrivial registers the fingerprint of a non-trivial case; distinct fingerprints
// are counted.
func (r *Recorder) NonTrivial(fingerprint string) {
	h := fnv.New64a()
	h.Write([]byte(fingerprint))
	v := h.Sum64()
	r.mu.Lock()
	if len(r.nontrivial) < maxFingerprints {
		r.nontrivial[v] = struct{}{}
	} else if _, ok := r.nontrivial[v]; !ok {
		r.ntOverflow++
	}
	r.mu.Unlock()
}

// Sample stores a written-out case (first few are kept).
func (r *Recorder) Sample(v any) {
	r.mu.Lock()
	if len(r.samples) < r.sampleCap {
		r.samples = append(r.samples, v)
	}
	r.mu.Unlock()
}

// SampleWanted reports whether another sample would still be stored.
func (r *Recorder) SampleWanted() bool {
	r.mu.Lock()
	defer r.mu.Unlock()
	return len(r.samples) < r.sampleCap
}

// Note records a free-text observation (not a verdict).
func (r *Recorder) Note(format string, a ...any) {
	r.mu.Lock()
	if len(r.notes) < 50 {
		r.notes = append(r.notes, fmt.Sprintf(format, a...))
	}
	r.mu.Unlock()
}

// Extra stores an arbitrary additional coverage key.
func (r *Recorder) Extra(key string, v any) {
	r.mu.Lock()
	r.extra[key] = v
	r.mu.Unlock()
}

// SetExhaustive marks that this unit enumerated its (stated) finite space completely.
func (r *Recorder) SetExhaustive(b bool) {
	r.mu.Lock()
	r.exhaustive = b
	r.mu.Unlock()
}

// Violation records a violation. With rapid the property is re-run while shrinking,
// so later (smaller) reports with the same signature replace earlier ones.
func (r *Recorder) Violation(sig, detail, replay string) {
	if len(detail) > 4000 {
		detail = detail[:4000] + "..."
	}
	r.mu.Lock()
	defer r.mu.Unlock()
	for i := range r.violations {
		if r.violations[i].Signature == sig {
			r.violations[i].Detail = detail
			if replay != "" {
				r.violations[i].Replay = replay
			}
			return
		}
	}
	r.violations = append(r.violations, Violation{Signature: sig, Detail: detail, Replay: replay})
}

// Failer is the subset of testing.TB / rapid.T used by Fail.
type Failer interface {
	Fatalf(format string, args ...any)
}

// Fail handles a failed oracle: a signature listed as known finding is counted and the
// case ends silently (returns true, the caller should return); anything else is
// recorded as violation and fails the test.
func (r *Recorder) Fail(t Failer, sig, detail string) bool {
	if r.IsKnown(sig) {
		r.KnownHit(sig, detail)
		return true
	}
	r.Violation(sig, detail, "")
	t.Fatalf("VERIF-VIOLATION property=%s signature=%s: %s", r.Property, sig, detail)
	return true
}

// Flush writes the side file. Safe to call several times.
func (r *Recorder) Flush() {
	path := os.Getenv("VERIF_OUT")
	if path == "" {
		return
	}
	r.mu.Lock()
	defer r.mu.Unlock()
	fps := make([]string, 0, len(r.nontrivial))
	for v := range r.nontrivial {
		fps = append(fps, strconv.FormatUint(v, 36))
	}
	sort.Strings(fps)
	out := map[string]any{
		"property":     r.Property,
		"unit":         r.Unit,
		"evaluations":  r.evals,
		"classes":      r.classes,
		"fingerprints": fps,
		"fp_overflow":  r.ntOverflow,
		"samples":      r.samples,
		"known_hits":   r.knownHits,
		"known_ex":     r.knownEx,
		"violations":   r.violations,
		"notes":        r.notes,
		"exhaustive":   r.exhaustive,
		"extra":        r.extra,
		"wall_s":       time.Since(r.start).Seconds(),
	}
	data, err := json.Marshal(out)
	if err != nil {
		data = []byte(fmt.Sprintf(`{"property":%q,"unit":%q,"marshal_error":%q}`, r.Property, r.Unit, err.Error()))
	}
	// one line per flush; the driver takes the last line of each unit
	f, err := os.OpenFile(path, os.O_CREATE|os.O_WRONLY|os.O_APPEND, 0644)
	if err != nil {
		return
	}
	f.Write(append(data, '\n'))
	f.Close()
}

// Tier returns "quick" or "thorough".
func Tier() string {
	if os.Getenv("VERIF_TIER") == "thorough" {
		return "thorough"
	}
	return "quick"
}

// Thorough reports whether the thorough tier is running.
func Thorough() bool { return Tier() == "thorough" }

// Seed returns the run seed (VERIF_SEED combined with the shard number), never 0.
func Seed() uint64 {
	s, _ := strconv.ParseUint(os.Getenv("VERIF_SEED"), 10, 64)
	sh, _ := strconv.ParseUint(os.Getenv("VERIF_SHARD"), 10, 64)
	v := s*1000 + sh + 1
	return v
}

// Shard returns (index, count) of this process among the parallel shards.
func Shard() (int, int) {
	sh, _ := strconv.Atoi(os.Getenv("VERIF_SHARD"))
	n, _ := strconv.Atoi(os.Getenv("VERIF_NSHARDS"))
	if n < 1 {
		n = 1
	}
	return sh, n
}

// EnvInt reads an integer environment variable with default.
func EnvInt(name string, def int) int {
	if v, err := strconv.Atoi(os.Getenv(name)); err == nil {
		return v
	}
	return def
}

// WorkDir returns a scratch directory for this process (under /verif/build/work).
func WorkDir() string {
	d := os.Getenv("VERIF_WORK")
	if d == "" {
		d = os.TempDir()
	}
	return d
}

// ScratchDir creates a fresh directory under WorkDir (never under /tmp: a child that is
// killed or exits on its own cannot run clean-ups, the driver wipes WorkDir instead).
func ScratchDir(tb interface{ Cleanup(func()) }, name string) string {
	d, err := os.MkdirTemp(WorkDir(), name+"-")
	if err != nil {
		panic(err)
	}
	tb.Cleanup(func() { os.RemoveAll(d) })
	return d
}

// ReplayPath returns the replay file to run instead of generating, if any.
func ReplayPath() string { return os.Getenv("VERIF_REPLAY") }

// XorShift is a tiny deterministic PRNG used to expand one drawn value into bulk
// content (file bytes); every use is a pure function of the drawn seed.
type XorShift uint64

// Next returns the next value.
func (x *XorShift) Next() uint64 {
	v := uint64(*x)
	if v == 0 {
		v = 0x9E3779B97F4A7C15
	}
	v ^= v << 13
	v ^= v >> 7
	v ^= v << 17
	*x = XorShift(v)
	return v
}

// Fill fills b with pseudo-random bytes.
func (x *XorShift) Fill(b []byte) {
	for i := 0; i < len(b); {
		v := x.Next()
		for k := 0; k < 8 && i < len(b); k++ {
			b[i] = byte(v)
			v >>= 8
			i++
		}
	}
}

// Content returns deterministic content of n bytes for a seed.
func Content(seed uint64, n int) []byte {
	b := make([]byte, n)
	x := XorShift(seed*0x9E3779B97F4A7C15 + 0x1234567)
	x.Fill(b)
	return b
}
