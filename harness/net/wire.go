package verifnet

import (
	"encoding/binary"
	"fmt"
)

// Independent decoder of the control-stream wire format (written from the protocol
// description, not sharing code with the repository) used by wire-level oracles.

// WireRec is one decoded control record.
type WireRec struct {
	Type     byte
	StreamID uint64 // file key for per-file records
	RelPath  string
	FileSize uint64
	Chunk    uint32
	OK       bool
	ErrMsg   string
	FileID   string
	Total    uint32
	Bitmap   []byte
	LastVer  uint32
	LastHash uint64
	Count    uint16
	Offset   int // byte offset of the record in the stream
	End      int // offset just past the record
}

const (
	WFileBegin  = 0x10
	WCredit     = 0x11
	WFileEnd    = 0x12
	WFileDone   = 0x13
	WResumeInfo = 0x14
	WResumeReq  = 0x15
	WCreditB    = 0x16
	WDataStrms  = 0x17
	WEnd        = 0xFF
)

type wireReader struct {
	b   []byte
	pos int
	err error
}

func (r *wireReader) need(n int) bool {
	if r.err != nil {
		return false
	}
	if r.pos+n > len(r.b) {
		r.err = fmt.Errorf("truncated at %d (need %d of %d)", r.pos, n, len(r.b))
		return false
	}
	return true
}
func (r *wireReader) u8() byte {
	if !r.need(1) {
		return 0
	}
	v := r.b[r.pos]
	r.pos++
	return v
}
func (r *wireReader) u16() uint16 {
	if !r.need(2) {
		return 0
	}
	v := binary.BigEndian.Uint16(r.b[r.pos:])
	r.pos += 2
	return v
}
func (r *wireReader) u32() uint32 {
	if !r.need(4) {
		return 0
	}
	v := binary.BigEndian.Uint32(r.b[r.pos:])
	r.pos += 4
	return v
}
func (r *wireReader) u64() uint64 {
	if !r.need(8) {
		return 0
	}
	v := binary.BigEndian.Uint64(r.b[r.pos:])
	r.pos += 8
	return v
}
func (r *wireReader) bytes(n int) []byte {
	if !r.need(n) {
		return nil
	}
	v := r.b[r.pos : r.pos+n]
	r.pos += n
	return v
}

// ParseControl decodes the records of a control-stream direction. withHeader skips the
// "SBC1" + length + manifest JSON header (sender to receiver direction) and returns the
// JSON. Decoding stops at the first incomplete record (the complete prefix is returned).
func ParseControl(b []byte, withHeader bool) (recs []WireRec, manifestJSON []byte, err error) {
	r := &wireReader{b: b}
	if withHeader {
		magic := r.bytes(4)
		if r.err != nil {
			return nil, nil, r.err
		}
		if string(magic) != "SBC1" {
			return nil, nil, fmt.Errorf("bad control magic %q", magic)
		}
		n := r.u32()
		manifestJSON = r.bytes(int(n))
		if r.err != nil {
			return nil, nil, r.err
		}
	}
	for r.pos < len(b) {
		start := r.pos
		rec := WireRec{Type: r.u8(), Offset: start}
		switch rec.Type {
		case WFileBegin:
			n := r.u16()
			rec.RelPath = string(r.bytes(int(n)))
			rec.FileSize = r.u64()
			rec.Chunk = r.u32()
			rec.StreamID = r.u64()
			r.u8()
			r.u16()
			r.u16()
			r.u32()
			r.u32()
		case WCredit:
			rec.StreamID = r.u64()
			r.u32()
		case WCreditB:
			n := r.u32()
			for i := uint32(0); i < n && r.err == nil; i++ {
				r.u64()
				r.u32()
			}
		case WFileEnd:
			rec.StreamID = r.u64()
			r.u32()
		case WFileDone:
			rec.StreamID = r.u64()
			rec.OK = r.u8() == 1
			n := r.u16()
			rec.ErrMsg = string(r.bytes(int(n)))
		case WResumeInfo:
			n := r.u16()
			rec.FileID = string(r.bytes(int(n)))
			rec.StreamID = r.u64()
			rec.Total = r.u32()
			bl := r.u32()
			rec.Bitmap = append([]byte(nil), r.bytes(int(bl))...)
			rec.LastVer = r.u32()
			rec.LastHash = r.u64()
		case WResumeReq:
			n := r.u16()
			rec.FileID = string(r.bytes(int(n)))
			rec.StreamID = r.u64()
		case WDataStrms:
			rec.Count = r.u16()
		case WEnd:
		default:
			return recs, manifestJSON, fmt.Errorf("unknown record type 0x%02x at %d", rec.Type, start)
		}
		if r.err != nil {
			return recs, manifestJSON, nil // incomplete trailing record
		}
		rec.End = r.pos
		recs = append(recs, rec)
	}
	return recs, manifestJSON, nil
}

// DataFrame is one chunk frame on a data stream.
type DataFrame struct {
	Key    uint64
	Index  uint32
	Len    uint32
	CRC    uint32
	Offset int // offset of the frame header in the stream
}

// ParseData decodes the complete chunk frames of a data-stream direction.
func ParseData(b []byte) []DataFrame {
	var out []DataFrame
	pos := 0
	for pos+20 <= len(b) {
		f := DataFrame{Key: binary.BigEndian.Uint64(b[pos:]), Index: binary.BigEndian.Uint32(b[pos+8:]), Len: binary.BigEndian.Uint32(b[pos+12:]), CRC: binary.BigEndian.Uint32(b[pos+16:]), Offset: pos}
		if pos+20+int(f.Len) > len(b) {
			break
		}
		out = append(out, f)
		pos += 20 + int(f.Len)
	}
	return out
}

// ---- hand encoders (a hostile or scripted peer does not go through the repository's
// validating writers) ------------------------------------------------------------------

func be16(v uint16) []byte { return []byte{byte(v >> 8), byte(v)} }
func be32(v uint32) []byte { return []byte{byte(v >> 24), byte(v >> 16), byte(v >> 8), byte(v)} }
func be64(v uint64) []byte {
	return append(be32(uint32(v>>32)), be32(uint32(v))...)
}

// EncHeader encodes the control header for raw manifest JSON.
func EncHeader(manifestJSON []byte) []byte {
	out := []byte("SBC1")
	out = append(out, be32(uint32(len(manifestJSON)))...)
	return append(out, manifestJSON...)
}

// EncDataStreams encodes a DataStreams record.
func EncDataStreams(n uint16) []byte { return append([]byte{WDataStrms}, be16(n)...) }

// EncFileBegin encodes a FileBegin record without any validation.
func EncFileBegin(relPath string, size uint64, chunk uint32, key uint64, alg byte) []byte {
	out := []byte{WFileBegin}
	out = append(out, be16(uint16(len(relPath)))...)
	out = append(out, relPath...)
	out = append(out, be64(size)...)
	out = append(out, be32(chunk)...)
	out = append(out, be64(key)...)
	out = append(out, alg)
	out = append(out, make([]byte, 2+2+4+4)...)
	return out
}

// EncFileEnd encodes a FileEnd record.
func EncFileEnd(key uint64) []byte {
	return append(append([]byte{WFileEnd}, be64(key)...), be32(0)...)
}

// EncResumeRequest encodes a ResumeRequest record.
func EncResumeRequest(fileID string, key uint64) []byte {
	out := []byte{WResumeReq}
	out = append(out, be16(uint16(len(fileID)))...)
	out = append(out, fileID...)
	return append(out, be64(key)...)
}

// EncEnd encodes the End record.
func EncEnd() []byte { return []byte{WEnd} }

// EncChunk encodes a data-stream chunk frame with the given CRC.
func EncChunk(key uint64, idx uint32, data []byte, crc uint32) []byte {
	out := be64(key)
	out = append(out, be32(idx)...)
	out = append(out, be32(uint32(len(data)))...)
	out = append(out, be32(crc)...)
	return append(out, data...)
}
