// Package verifnet holds the parts of the /verif harness that depend on the repository's
// transfer and manifest packages: connection adapters, the source-tree generator, the
// transfer runner and an independent wire decoder. It is compiled into the repository as
// internal/verifnet through a build overlay.
package verifnet

import (
	"crypto/sha256"
	"encoding/hex"
	"fmt"
	"os"
	"path/filepath"
	"sort"
	"strings"

	"github.com/sheerbytes/sheerbytes/internal/verifkit"
	"pgregory.net/rapid"
)

// ResumeDirName is the tool's own metadata directory, never generated as a source name
// and ignored when output trees are compared.
const ResumeDirName = ".thruflux_resumedata"

// Node is one entry of a generated source tree.
type Node struct {
	Rel  string // slash separated, relative to the tree root
	Dir  bool
	Size int
	Seed uint64
}

// Tree is a generated source tree (data only, see Materialize).
type Tree struct {
	Base  string // base name of the root directory
	Nodes []Node
}

// GenOpts steer the tree generator.
type GenOpts struct {
	MaxFiles     int  // default 12
	MaxChunks    int  // max file size in chunks, default 40
	UnusualNames bool // unicode, spaces, leading dots, backslashes, 1_x look-alikes, long components
	DotDotNames  bool // names containing ".." inside a component (legal, but rejected by the tool's validator: C03 finding)
	InvalidUTF8  bool // names with bytes that are not UTF-8 (legal on Linux; C18 finding)
	MinFiles     int
}

var plainNames = []string{"a", "b", "c", "data", "f1", "f2", "img", "x", "y", "z", "notes", "log", "k", "m", "n", "q"}
var unusualNames = []string{"é", "漢字", "a b", " lead", "trail ", ".hidden", ".hid2", "1_x", "2_x", "1_1_x", "x.", "semi;colon", "quo'te", "a\\b", "-dash", "#h", "~t", "%41", "a\tb", "€uro", "UPPER", "a.b.c", "(p)"}
var dotdotNames = []string{"a..b", "notes..txt", "..rc", "end.."}

func genName(t *rapid.T, o GenOpts, label string) string {
	choices := []int{0, 0, 0}
	if o.UnusualNames {
		choices = append(choices, 1, 1, 2)
	}
	if o.DotDotNames {
		choices = append(choices, 3)
	}
	if o.InvalidUTF8 {
		choices = append(choices, 4)
	}
	switch rapid.SampledFrom(choices).Draw(t, label+"_kind") {
	case 1:
		return rapid.SampledFrom(unusualNames).Draw(t, label)
	case 2: // long component
		n := rapid.SampledFrom([]int{64, 200, 255}).Draw(t, label+"_len")
		return strings.Repeat("L", n-1) + rapid.SampledFrom([]string{"a", "b", "c"}).Draw(t, label)
	case 3:
		return rapid.SampledFrom(dotdotNames).Draw(t, label)
	case 4:
		return rapid.SampledFrom([]string{"bad\xffname", "\xfe\xfd", "x\xc3"}).Draw(t, label)
	default:
		s := rapid.SampledFrom(plainNames).Draw(t, label)
		if rapid.IntRange(0, 3).Draw(t, label+"_ext") == 0 {
			s += rapid.SampledFrom([]string{".txt", ".bin", ".d", ".tar.gz"}).Draw(t, label+"_e")
		}
		return s
	}
}

// GenSize draws a file size biased to the boundaries of the chunk size c.
func GenSize(t *rapid.T, c int, maxChunks int, label string) int {
	if maxChunks < 1 {
		maxChunks = 1
	}
	k := rapid.IntRange(1, maxChunks).Draw(t, label+"_k")
	cands := []int{0, 1, c - 1, c, c + 1, 2*c - 1, 2 * c, 2*c + 1, k * c, k*c - 1, k*c + 1}
	pick := rapid.IntRange(0, len(cands)+3).Draw(t, label+"_pick")
	var v int
	if pick < len(cands) {
		v = cands[pick]
	} else {
		v = rapid.IntRange(0, maxChunks*c).Draw(t, label+"_rand")
	}
	if v < 0 {
		v = 0
	}
	if v > maxChunks*c {
		v = maxChunks * c
	}
	return v
}

// GenTree draws a source tree whose file sizes are biased around the chunk size c.
func GenTree(t *rapid.T, c int, o GenOpts) Tree {
	if o.MaxFiles == 0 {
		o.MaxFiles = 12
	}
	if o.MaxChunks == 0 {
		o.MaxChunks = 40
	}
	tr := Tree{Base: rapid.SampledFrom([]string{"src", "tree", "my dir", "päck", "t.d"}).Draw(t, "base")}
	used := map[string]bool{}
	dirs := []string{""}
	nd := rapid.IntRange(0, 4).Draw(t, "ndirs")
	for i := 0; i < nd; i++ {
		parent := rapid.SampledFrom(dirs).Draw(t, fmt.Sprintf("dparent%d", i))
		if strings.Count(parent, "/") >= 2 {
			parent = ""
		}
		name := genName(t, o, fmt.Sprintf("dname%d", i))
		rel := name
		if parent != "" {
			rel = parent + "/" + name
		}
		if used[strings.ToLower(rel)] || len(rel) > 900 {
			continue
		}
		used[strings.ToLower(rel)] = true
		dirs = append(dirs, rel)
		tr.Nodes = append(tr.Nodes, Node{Rel: rel, Dir: true})
	}
	nf := rapid.IntRange(o.MinFiles, o.MaxFiles).Draw(t, "nfiles")
	for i := 0; i < nf; i++ {
		parent := rapid.SampledFrom(dirs).Draw(t, fmt.Sprintf("fparent%d", i))
		name := genName(t, o, fmt.Sprintf("fname%d", i))
		rel := name
		if parent != "" {
			rel = parent + "/" + name
		}
		if used[strings.ToLower(rel)] || len(rel) > 1000 {
			continue
		}
		used[strings.ToLower(rel)] = true
		tr.Nodes = append(tr.Nodes, Node{Rel: rel, Size: GenSize(t, c, o.MaxChunks, fmt.Sprintf("fsize%d", i)), Seed: rapid.Uint64().Draw(t, fmt.Sprintf("fseed%d", i))})
	}
	sort.Slice(tr.Nodes, func(i, j int) bool { return tr.Nodes[i].Rel < tr.Nodes[j].Rel })
	return tr
}

// Files returns the file nodes.
func (tr Tree) Files() []Node {
	var out []Node
	for _, n := range tr.Nodes {
		if !n.Dir {
			out = append(out, n)
		}
	}
	return out
}

// Content returns the bytes of a file node.
func (n Node) Content() []byte { return verifkit.Content(n.Seed, n.Size) }

// Materialize writes the tree below parent/<Base> and returns that root path.
func (tr Tree) Materialize(parent string) (string, error) {
	root := filepath.Join(parent, tr.Base)
	if err := os.MkdirAll(root, 0755); err != nil {
		return "", err
	}
	for _, n := range tr.Nodes {
		p := filepath.Join(root, filepath.FromSlash(n.Rel))
		if n.Dir {
			if err := os.MkdirAll(p, 0755); err != nil {
				return "", err
			}
			continue
		}
		if err := os.MkdirAll(filepath.Dir(p), 0755); err != nil {
			return "", err
		}
		if err := os.WriteFile(p, n.Content(), 0644); err != nil {
			return "", err
		}
	}
	return root, nil
}

// Entry is one entry of a tree digest.
type Entry struct {
	Rel  string
	Dir  bool
	Size int64
	Sum  string
}

func (e Entry) String() string {
	if e.Dir {
		return fmt.Sprintf("%q/", e.Rel)
	}
	return fmt.Sprintf("%q[%d,%s]", e.Rel, e.Size, e.Sum)
}

// Digest walks dir (lstat, not following links) and lists everything in it, ignoring the
// tool's resume-metadata directories.
func Digest(dir string) ([]Entry, error) {
	var out []Entry
	err := filepath.Walk(dir, func(p string, info os.FileInfo, err error) error {
		if err != nil {
			return err
		}
		rel, _ := filepath.Rel(dir, p)
		if rel == "." {
			return nil
		}
		if info.IsDir() && info.Name() == ResumeDirName {
			return filepath.SkipDir
		}
		rel = filepath.ToSlash(rel)
		if info.IsDir() {
			out = append(out, Entry{Rel: rel, Dir: true})
			return nil
		}
		if !info.Mode().IsRegular() {
			out = append(out, Entry{Rel: rel, Size: info.Size(), Sum: "special:" + info.Mode().String()})
			return nil
		}
		data, err := os.ReadFile(p)
		if err != nil {
			return err
		}
		s := sha256.Sum256(data)
		out = append(out, Entry{Rel: rel, Size: int64(len(data)), Sum: hex.EncodeToString(s[:8])})
		return nil
	})
	sort.Slice(out, func(i, j int) bool { return out[i].Rel < out[j].Rel })
	return out, err
}

// Expected returns the digest the output directory must have for the tree when every
// source path is mapped below prefix (prefix "" = directly in the output directory).
// Intermediate directories of prefix are included.
func (tr Tree) Expected(prefix string) []Entry {
	var out []Entry
	seen := map[string]bool{}
	addDirs := func(rel string) {
		parts := strings.Split(rel, "/")
		for i := 1; i <= len(parts); i++ {
			d := strings.Join(parts[:i], "/")
			if d != "" && !seen[d] {
				seen[d] = true
				out = append(out, Entry{Rel: d, Dir: true})
			}
		}
	}
	if prefix != "" {
		addDirs(prefix)
	}
	for _, n := range tr.Nodes {
		rel := n.Rel
		if prefix != "" {
			rel = prefix + "/" + n.Rel
		}
		if n.Dir {
			addDirs(rel)
			continue
		}
		if i := strings.LastIndex(rel, "/"); i >= 0 {
			addDirs(rel[:i])
		}
		s := sha256.Sum256(n.Content())
		out = append(out, Entry{Rel: rel, Size: int64(n.Size), Sum: hex.EncodeToString(s[:8])})
	}
	sort.Slice(out, func(i, j int) bool { return out[i].Rel < out[j].Rel })
	return out
}

// DiffDigests compares two digests in both directions; "" means equal.
func DiffDigests(want, got []Entry) string {
	wm := map[string]Entry{}
	gm := map[string]Entry{}
	for _, e := range want {
		wm[e.Rel] = e
	}
	for _, e := range got {
		gm[e.Rel] = e
	}
	var diffs []string
	for _, e := range want {
		g, ok := gm[e.Rel]
		if !ok {
			diffs = append(diffs, "missing "+e.String())
		} else if g != e {
			diffs = append(diffs, fmt.Sprintf("differs: want %s got %s", e, g))
		}
	}
	for _, e := range got {
		if _, ok := wm[e.Rel]; !ok {
			diffs = append(diffs, "extra "+e.String())
		}
	}
	if len(diffs) > 8 {
		diffs = append(diffs[:8], fmt.Sprintf("... and %d more", len(diffs)-8))
	}
	return strings.Join(diffs, "; ")
}

// Describe renders a tree compactly for samples and failure messages.
func (tr Tree) Describe() string {
	var sb strings.Builder
	fmt.Fprintf(&sb, "%s{", tr.Base)
	for i, n := range tr.Nodes {
		if i > 0 {
			sb.WriteString(" ")
		}
		if n.Dir {
			fmt.Fprintf(&sb, "%q/", n.Rel)
		} else {
			fmt.Fprintf(&sb, "%q:%d", n.Rel, n.Size)
		}
	}
	sb.WriteString("}")
	return sb.String()
}
