package verifnet

import (
	"context"
	"fmt"
	"io"
	"log/slog"
	"net"
	"time"

	"github.com/quic-go/quic-go"
	"github.com/sheerbytes/sheerbytes/internal/quictransport"
	"github.com/sheerbytes/sheerbytes/internal/transfer"
	"github.com/sheerbytes/sheerbytes/internal/transferquic"
)

// NewQUICPairConn builds a pair over n real QUIC connections on the loopback interface, set
// up the way the applications do it: the sending side dials, the receiving side accepts
// (production TLS and QUIC configurations, transferquic connections), n > 1 wrapped with
// transfer.NewMultiConn on both sides.
func NewQUICPairConn(n int) (*Pair, error) {
	logger := slog.New(slog.NewTextHandler(io.Discard, nil))
	ctx, cancel := context.WithTimeout(context.Background(), 10*time.Second)
	defer cancel()
	p := &Pair{}
	fail := func(err error) (*Pair, error) {
		p.Close()
		return nil, err
	}
	ludp, err := net.ListenPacket("udp", "127.0.0.1:0")
	if err != nil {
		return nil, err
	}
	l, err := quictransport.ListenWithConfig(ctx, ludp, logger, quictransport.DefaultServerQUICConfig())
	if err != nil {
		ludp.Close()
		return nil, err
	}
	lt := transferquic.NewListener(l, logger)
	p.closeFns = append(p.closeFns, func() { l.Close(); ludp.Close() })
	var sc, rc []transfer.Conn
	for i := 0; i < n; i++ {
		cudp, err := net.ListenPacket("udp", "127.0.0.1:0")
		if err != nil {
			return fail(err)
		}
		tr := &quic.Transport{Conn: cudp}
		type acc struct {
			c   transfer.Conn
			err error
		}
		ach := make(chan acc, 1)
		go func() {
			c, err := lt.Accept(ctx)
			ach <- acc{c, err}
		}()
		qc, err := tr.Dial(ctx, ludp.LocalAddr(), quictransport.ClientConfig(), quictransport.DefaultClientQUICConfig())
		if err != nil {
			cudp.Close()
			return fail(fmt.Errorf("dial: %w", err))
		}
		d, err := transferquic.NewDialer(qc, logger).Dial(ctx, "peer")
		if err != nil {
			cudp.Close()
			return fail(err)
		}
		a := <-ach
		if a.err != nil {
			cudp.Close()
			return fail(a.err)
		}
		sc = append(sc, d)
		rc = append(rc, a.c)
		ac := a.c
		p.closeFns = append(p.closeFns, func() { d.Close(); ac.Close(); qc.CloseWithError(0, ""); tr.Close(); cudp.Close() })
	}
	if n == 1 {
		p.Send, p.Recv = sc[0], rc[0]
		return p, nil
	}
	ms, err := transfer.NewMultiConn(sc)
	if err != nil {
		return fail(err)
	}
	mr, err := transfer.NewMultiConn(rc)
	if err != nil {
		return fail(err)
	}
	p.Send, p.Recv = ms, mr
	p.closeFns = append(p.closeFns, func() { ms.Close(); mr.Close() })
	return p, nil
}
