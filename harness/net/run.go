package verifnet

import (
	"bytes"
	"context"
	"fmt"
	"net"
	"runtime"
	"strings"
	"sync"
	"time"

	"github.com/sheerbytes/sheerbytes/internal/transfer"
	"github.com/sheerbytes/sheerbytes/internal/verifkit"
	"github.com/sheerbytes/sheerbytes/pkg/manifest"
)

// MemConnAdapter adapts a memnet connection to transfer.Conn.
type MemConnAdapter struct{ C *verifkit.MemConn }

func (v MemConnAdapter) OpenStream(ctx context.Context) (transfer.Stream, error) {
	s, err := v.C.OpenStreamRaw(ctx)
	if err != nil {
		return nil, err
	}
	return s, nil
}
func (v MemConnAdapter) AcceptStream(ctx context.Context) (transfer.Stream, error) {
	s, err := v.C.AcceptStreamRaw(ctx)
	if err != nil {
		return nil, err
	}
	return s, nil
}
func (v MemConnAdapter) RemoteAddr() net.Addr { return v.C.RemoteAddr() }
func (v MemConnAdapter) Close() error         { return v.C.Close() }

var _ transfer.Conn = MemConnAdapter{}

// Pair is a connected pair of transfer.Conn (possibly multi-connection).
type Pair struct {
	Send, Recv transfer.Conn
	MemA, MemB []*verifkit.MemConn
	closeFns   []func()
}

// Close closes everything.
func (p *Pair) Close() {
	for _, f := range p.closeFns {
		f()
	}
}

// Progress returns total bytes moved and the latest movement time (memnet pairs only).
func (p *Pair) Progress() (int64, time.Time) {
	var tot int64
	var last time.Time
	for _, c := range p.MemA {
		n, t := c.Progress()
		tot += n
		if t.After(last) {
			last = t
		}
	}
	return tot, last
}

// NewMemPairConn builds a pair over n memnet connections (n>1: wrapped with
// transfer.NewMultiConn on both sides as the application does). optsFor returns the options
// of connection i (so that a fault or tap can be attached to one of them).
func NewMemPairConn(n int, optsFor func(i int) verifkit.MemOptions) (*Pair, error) {
	p := &Pair{}
	var sc, rc []transfer.Conn
	for i := 0; i < n; i++ {
		a, b := verifkit.NewMemPair(optsFor(i))
		p.MemA = append(p.MemA, a)
		p.MemB = append(p.MemB, b)
		sc = append(sc, MemConnAdapter{a})
		rc = append(rc, MemConnAdapter{b})
		p.closeFns = append(p.closeFns, func() { a.Close(); b.Close() })
	}
	if n == 1 {
		p.Send, p.Recv = sc[0], rc[0]
		return p, nil
	}
	ms, err := transfer.NewMultiConn(sc)
	if err != nil {
		return nil, err
	}
	mr, err := transfer.NewMultiConn(rc)
	if err != nil {
		return nil, err
	}
	p.Send, p.Recv = ms, mr
	p.closeFns = append(p.closeFns, func() { ms.Close(); mr.Close() })
	return p, nil
}

// RunCfg describes one transfer run.
type RunCfg struct {
	Manifest manifest.Manifest
	RootPath string
	OutDir   string
	SendOpts transfer.Options
	RecvOpts transfer.Options
	Legacy   bool // single-stream SendManifest/RecvManifest
	Pair     *Pair
	// Watchdog: overall limit; Idle: no byte moved for this long while not finished => hang.
	Watchdog time.Duration
	Idle     time.Duration
	// Optional contexts (default: background, cancelled by the runner at the end).
	SendCtx, RecvCtx context.Context
	// CloseOnReturn closes the side's connection when its endpoint returns (what the
	// applications do: the process exits or tears the connection down).
	CloseOnReturn bool
	// CloseOnSuccess additionally closes the side's connection when it returns nil.
	CloseOnSuccess bool
	// RecvCloseDelay postpones the closing of the receiving side's connection after its
	// endpoint returned (an application that tears down its UI, flushes logs, ... before it
	// exits): the peer first sees the streams end, the connection only later.
	RecvCloseDelay time.Duration
}

// RunResult is the outcome of a run.
type RunResult struct {
	SendErr, RecvErr           error
	SendReturned, RecvReturned bool
	SendDur, RecvDur           time.Duration
	Hung                       bool
	HangKind                   string // classification from the goroutine dump
	Dump                       string
	Dur                        time.Duration
}

// BothOK reports success on both sides.
func (r RunResult) BothOK() bool {
	return r.SendReturned && r.RecvReturned && r.SendErr == nil && r.RecvErr == nil
}

func (r RunResult) String() string {
	return fmt.Sprintf("send(returned=%v err=%v %.0fms) recv(returned=%v err=%v %.0fms) hung=%v %s",
		r.SendReturned, r.SendErr, r.SendDur.Seconds()*1000, r.RecvReturned, r.RecvErr, r.RecvDur.Seconds()*1000, r.Hung, r.HangKind)
}

// Run executes sender and receiver concurrently and waits for both, with watchdog and
// idle detection. On a hang it takes a goroutine dump, classifies it, then tears the
// pair down and gives the endpoints a moment to return.
func Run(cfg RunCfg) RunResult {
	if cfg.Watchdog == 0 {
		cfg.Watchdog = 20 * time.Second
	}
	if cfg.Idle == 0 {
		cfg.Idle = 3 * time.Second
	}
	sctx, rctx := cfg.SendCtx, cfg.RecvCtx
	var cancels []context.CancelFunc
	if sctx == nil {
		c, cancel := context.WithCancel(context.Background())
		sctx = c
		cancels = append(cancels, cancel)
	}
	if rctx == nil {
		c, cancel := context.WithCancel(context.Background())
		rctx = c
		cancels = append(cancels, cancel)
	}
	defer func() {
		for _, c := range cancels {
			c()
		}
	}()
	var res RunResult
	var mu sync.Mutex
	start := time.Now()
	sdone := make(chan struct{})
	rdone := make(chan struct{})
	go func() {
		defer close(sdone)
		var err error
		if cfg.Legacy {
			var s transfer.Stream
			s, err = cfg.Pair.Send.OpenStream(sctx)
			if err == nil {
				err = transfer.SendManifest(sctx, s, cfg.RootPath, cfg.Manifest, cfg.SendOpts.ChunkSize, nil)
				s.Close()
			}
		} else {
			err = transfer.SendManifestMultiStream(sctx, cfg.Pair.Send, cfg.RootPath, cfg.Manifest, cfg.SendOpts)
		}
		mu.Lock()
		res.SendErr, res.SendReturned, res.SendDur = err, true, time.Since(start)
		mu.Unlock()
		if cfg.CloseOnReturn && (err != nil || cfg.CloseOnSuccess) {
			cfg.Pair.Send.Close()
		}
	}()
	go func() {
		defer close(rdone)
		var err error
		if cfg.Legacy {
			var s transfer.Stream
			s, err = cfg.Pair.Recv.AcceptStream(rctx)
			if err == nil {
				_, err = transfer.RecvManifest(rctx, s, cfg.OutDir, nil)
			}
		} else {
			_, err = transfer.RecvManifestMultiStream(rctx, cfg.Pair.Recv, cfg.OutDir, cfg.RecvOpts)
		}
		mu.Lock()
		res.RecvErr, res.RecvReturned, res.RecvDur = err, true, time.Since(start)
		mu.Unlock()
		if cfg.CloseOnReturn && (err != nil || cfg.CloseOnSuccess) {
			if cfg.RecvCloseDelay > 0 {
				time.AfterFunc(cfg.RecvCloseDelay, func() { cfg.Pair.Recv.Close() })
			} else {
				cfg.Pair.Recv.Close()
			}
		}
	}()
	tick := time.NewTicker(50 * time.Millisecond)
	defer tick.Stop()
	var idleSince, idleMark time.Time
	sd, rd := false, false
	for !(sd && rd) {
		select {
		case <-sdone:
			sd = true
			sdone = nil
		case <-rdone:
			rd = true
			rdone = nil
		case <-tick.C:
			_, last := cfg.Pair.Progress()
			idle := !last.IsZero() && time.Since(last) > cfg.Idle && time.Since(start) > cfg.Idle
			if idle {
				// "no byte moved for Idle" is first only a sighting: on a machine whose cores are
				// all taken the endpoints themselves may simply not have been scheduled. It
				// counts as a hang when it persists for another 2 x Idle (at least 8 s) during
				// which this runner demonstrably kept running (it ticks every 50 ms).
				if idleSince.IsZero() || last.After(idleMark) {
					idleSince, idleMark = time.Now(), last
				}
				confirm := 2 * cfg.Idle
				if confirm < 8*time.Second {
					confirm = 8 * time.Second
				}
				if time.Since(idleSince) < confirm {
					idle = false
				}
			} else {
				idleSince = time.Time{}
			}
			if idle || time.Since(start) > cfg.Watchdog {
				mu.Lock()
				res.Hung = true
				mu.Unlock()
				buf := make([]byte, 1<<20)
				n := runtime.Stack(buf, true)
				dump := string(buf[:n])
				kind := ClassifyDump(dump)
				if !idle {
					kind = "watchdog:" + kind
				}
				// tear down and give the endpoints a moment
				for _, c := range cancels {
					c()
				}
				cfg.Pair.Close()
				deadline := time.After(3 * time.Second)
				for !(sd && rd) {
					select {
					case <-sdone:
						sd = true
						sdone = nil
					case <-rdone:
						rd = true
						rdone = nil
					case <-deadline:
						sd, rd = true, true
					}
				}
				mu.Lock()
				res.HangKind, res.Dump = kind, dump
				mu.Unlock()
			}
		}
	}
	mu.Lock()
	defer mu.Unlock()
	res.Dur = time.Since(start)
	return res
}

// ClassifyDump maps a goroutine dump of a stalled transfer to a short signature naming
// where the endpoints are parked.
func ClassifyDump(dump string) string {
	var kinds []string
	add := func(k string) {
		for _, e := range kinds {
			if e == k {
				return
			}
		}
		kinds = append(kinds, k)
	}
	for _, g := range strings.Split(dump, "\n\n") {
		if !strings.Contains(g, "internal/transfer.") {
			continue
		}
		switch {
		case strings.Contains(g, "RecvManifestMultiStream(") && strings.Contains(g, "AcceptStreamRaw") || (strings.Contains(g, "RecvManifestMultiStream(") && strings.Contains(g, "AcceptStream(")):
			add("recv-blocked-accepting-data-streams")
		case strings.Contains(g, "fileWaitRegistry).wait"):
			add("recv-reader-waiting-for-unknown-file")
		case strings.Contains(g, "fileDoneRegistry).wait"):
			add("send-waiting-filedone")
		case strings.Contains(g, "resumeInfoRegistry).wait"):
			add("send-waiting-resumeinfo")
		case strings.Contains(g, "SendManifestMultiStream") && strings.Contains(g, "sync.(*WaitGroup).Wait"):
			add("send-waiting-for-workers")
		}
	}
	if len(kinds) == 0 {
		// fall back to the innermost transfer frames
		var frames []string
		for _, g := range strings.Split(dump, "\n\n") {
			if !strings.Contains(g, "internal/transfer.") || strings.Contains(g, "newReadPool") {
				continue
			}
			for _, line := range strings.Split(g, "\n") {
				if strings.Contains(line, "internal/transfer.") {
					f := line
					if i := strings.Index(f, "internal/transfer."); i >= 0 {
						f = f[i+len("internal/transfer."):]
					}
					if i := strings.Index(f, "("); i > 0 && !strings.HasPrefix(f, "(") {
						f = f[:i]
					}
					frames = append(frames, f)
					break
				}
			}
		}
		if len(frames) > 4 {
			frames = frames[:4]
		}
		return "parked:" + strings.Join(frames, ",")
	}
	// one canonical signature: the receiver-side cause first (the sender waiting for an
	// acknowledgement is its consequence)
	for _, k := range []string{"recv-blocked-accepting-data-streams", "recv-reader-waiting-for-unknown-file", "send-waiting-resumeinfo", "send-waiting-filedone", "send-waiting-for-workers"} {
		for _, e := range kinds {
			if e == k {
				return k
			}
		}
	}
	return strings.Join(kinds, "+")
}

// TrimDump shortens a goroutine dump to the transfer-related goroutines.
func TrimDump(dump string) string {
	var b bytes.Buffer
	for _, g := range strings.Split(dump, "\n\n") {
		if strings.Contains(g, "internal/transfer.") && !strings.Contains(g, "newReadPool") {
			lines := strings.Split(g, "\n")
			if len(lines) > 14 {
				lines = lines[:14]
			}
			b.WriteString(strings.Join(lines, "\n"))
			b.WriteString("\n\n")
		}
		if b.Len() > 6000 {
			break
		}
	}
	return b.String()
}
