package verifxfer

import (
	"fmt"
	"testing"

	"github.com/sheerbytes/sheerbytes/internal/verifkit"
	"pgregory.net/rapid"
)

// ---- C06 (histories): tampered data files combined with interrupted attempts -----------------
//
// A first attempt is killed and leaves marked chunks; the partial data file is then deleted
// or shortened; the next attempt is itself killed (preferably around the point where the
// receiver re-creates the file and decides about the old metadata); the final attempt runs
// to its end. Oracle (C06): if the final attempt reports success the tree is identical -
// stale marks must never survive next to a re-created data file.

func TestVerifC06Interrupted(t *testing.T) {
	rec := verifkit.NewRecorder("C06", "interrupted")
	defer rec.Flush()
	rapid.Check(t, func(rt *rapid.T) {
		cc := genCrashCase(rt)
		// shape the chain: [kill with every mark flushed] [tamper + kill at a drawn site] (+ optional third)
		cc.Chain[0].Kind, cc.Chain[0].FlushEvery, cc.Chain[0].ChunkDelta = "kill", 1, 0
		if cc.Chain[0].At < 0.3 {
			cc.Chain[0].At += 0.3 // late enough for marks to exist
		}
		second := interruption{
			Kind:       "kill",
			At:         frac(rt, "at2"),
			FlushEvery: rapid.SampledFrom([]int{0, 1, 2}).Draw(rt, "flush2"),
			Site:       rapid.SampledFrom([]string{"recv.filebegin.truncated", "recv.filebegin.truncated", "recv.filebegin.registered", "recv.chunk.written", "recv.chunk.marked", "sidecar.flush.tmpwritten", ""}).Draw(rt, "site2"),
			Tamper:     rapid.SampledFrom([]string{"data-deleted", "data-deleted", "data-shortened", ""}).Draw(rt, "tamper2"),
			TamperFile: rapid.IntRange(0, 3).Draw(rt, "tfile2"),
			TamperFrac: frac(rt, "tfrac2"),
		}
		cc.Chain = append(cc.Chain[:1], second)
		if rapid.IntRange(0, 3).Draw(rt, "third") == 0 {
			third := second
			third.At = frac(rt, "at3")
			third.Tamper = rapid.SampledFrom([]string{"", "data-deleted", "data-shortened"}).Draw(rt, "tamper3")
			cc.Chain = append(cc.Chain, third)
		}
		cc.FinalDelta = 0
		cc.FinalTamper = rapid.SampledFrom([]int{0, 0, 0, 1, 2}).Draw(rt, "final_tamper")
		cc.FinalTamperFile = rapid.IntRange(0, 3).Draw(rt, "final_tfile")
		sig, detail, st, err := runHistory(cc, "C06")
		if err != nil {
			rec.Class("not-run")
			return
		}
		rec.Eval()
		recordHistory(rec, st)
		if sig != "" {
			rec.Fail(rt, sig, detail+" | "+cc.String())
			return
		}
		if len(st.tampers) > 0 && st.kills >= 2 {
			rec.Class("tampered-and-killed-twice")
			rec.NonTrivial(fmt.Sprintf("%v|%s", cc.Chain, cc.X.fingerprint()))
		}
		if rec.SampleWanted() {
			rec.Sample(map[string]any{"case": cc.String(), "tampering": st.tampers})
		}
	})
}
