package verifxfer

import (
	"os"
	"testing"
	"time"

	"github.com/sheerbytes/sheerbytes/internal/verifkit"
	"github.com/sheerbytes/sheerbytes/internal/verifnet"
	"pgregory.net/rapid"
)

// ---- C01 / C03 over real QUIC ---------------------------------------------------------------
//
// The same generated cases as the in-memory units, carried by real quic-go connections on
// the loopback interface (production TLS/QUIC configuration, transferquic connections,
// 1-4 connections through NewMultiConn). Fewer cases (a handshake per connection), no
// fault or latency control; the oracles are the same: success on both sides implies an
// identical tree (C01), and healthy peers succeed (C03).

func TestVerifC01QUIC(t *testing.T) { quicCases(t, "C01") }
func TestVerifC03QUIC(t *testing.T) { quicCases(t, "C03") }

func quicCases(t *testing.T, prop string) {
	rec := verifkit.NewRecorder(prop, "quic")
	defer rec.Flush()
	rapid.Check(t, func(rt *rapid.T) {
		// about a tenth of the configured case count: each case costs QUIC handshakes (the
		// selection is a drawn value, so that shrinking and replay stay deterministic)
		if rapid.IntRange(0, 9).Draw(rt, "run_over_quic") != 4 {
			return
		}
		x := genCase(rt, verifnet.GenOpts{UnusualNames: true, DotDotNames: true, InvalidUTF8: true, MaxChunks: 12}, false, 0)
		x.Legacy = false
		dir := caseDir("quic")
		defer os.RemoveAll(dir)
		p, err := prepare(x, dir)
		if err != nil {
			rec.Class("prepare-failed")
			return
		}
		conns := x.Conns
		pair, err := verifnet.NewQUICPairConn(conns)
		if err != nil {
			rec.Class("quic-setup-failed")
			rec.Note("quic pair: %v", err)
			return
		}
		defer pair.Close()
		res := p.run(pair, 30*time.Second, 0)
		rec.Eval()
		if conns > 1 {
			rec.Class("multi-conn")
		}
		if res.Hung {
			if prop == "C03" {
				rec.Fail(rt, "quic:hung:"+res.HangKind, "over real QUIC: "+x.String()+"\n"+verifnet.TrimDump(res.Dump))
			}
			return
		}
		if !res.BothOK() {
			if prop == "C03" {
				rec.Fail(rt, "quic:failed:"+errClass(res.String()), "over real QUIC: "+res.String()+" | case: "+x.String())
			}
			return
		}
		if diff := p.checkTree(); diff != "" {
			sig := "tree-differs-after-success"
			if prop == "C03" {
				sig = "completed-with-wrong-tree"
			}
			rec.Fail(rt, sig, "over real QUIC: "+diff+" | case: "+x.String())
			return
		}
		if maxChunksOf(x) >= 2 || conns > 1 {
			rec.NonTrivial(x.fingerprint())
		}
		if rec.SampleWanted() {
			rec.Sample("real QUIC: " + x.String())
		}
	})
}
