package verifxfer

import (
	"bytes"
	"encoding/hex"
	"fmt"
	"hash/fnv"
	"os"
	"path/filepath"
	"sort"
	"strings"
	"testing"

	"github.com/sheerbytes/sheerbytes/internal/verifkit"
	"github.com/sheerbytes/sheerbytes/internal/verifnet"
	"github.com/sheerbytes/sheerbytes/pkg/manifest"
	"pgregory.net/rapid"
)

// ---- C04 / C05: interruption at any point -------------------------------------------

type interruption struct {
	Kind       string  // kill | drop
	At         float64 // fraction of the hook hits of an uninterrupted run
	FlushEvery int
	ExitFlush  bool
	ChunkDelta int    // this run uses chunk size base+delta (99: another chunk size that keeps some file's chunk count)
	Site       string // "" = kill at the At-th fraction of all hook hits; else of the hits of this site
	Tamper     string // C06 histories: what happens to a partially received data file before this run ("" = nothing)
	TamperFile int
	TamperFrac float64
}

type crashCase struct {
	X                            xcase
	Chain                        []interruption
	Delay                        int
	FinalDelta                   int
	FinalTamper, FinalTamperFile int
}

// tamperData deletes or shortens the data file of a file that already has marked chunks
// (what a user or a clean-up job may do between two attempts). Returns a description.
func tamperData(e *crashEnv, kind string, file int, fr float64) string {
	if kind == "" {
		return ""
	}
	var cands []diskSidecar
	for _, sc := range scanSidecars(e.out, e.p.m) {
		if sc.Loadable && sc.Item != nil {
			if _, ok := sc.SC.HighestComplete(); ok {
				cands = append(cands, sc)
			}
		}
	}
	if len(cands) == 0 {
		return ""
	}
	sc := cands[file%len(cands)]
	fp := filepath.Join(e.baseDir(), filepath.FromSlash(sc.Item.RelPath))
	switch kind {
	case "data-deleted":
		if os.Remove(fp) != nil {
			return ""
		}
	case "data-shortened":
		n := int64(fr * float64(sc.Item.Size))
		if n >= sc.Item.Size {
			n = sc.Item.Size - 1
		}
		if n < 0 || os.Truncate(fp, n) != nil {
			return ""
		}
	default:
		return ""
	}
	hi, _ := sc.SC.HighestComplete()
	return fmt.Sprintf("%s of %s (highest marked chunk %d)", kind, sc.Item.RelPath, hi)
}

func (c crashCase) String() string {
	return fmt.Sprintf("chain=%+v final-chunk-delta=%d hashdelay=%d case: %s", c.Chain, c.FinalDelta, c.Delay, c.X)
}

func fileKeyOf(it manifest.FileItem) uint64 {
	h := fnv.New64a()
	if it.ID != "" {
		h.Write([]byte(it.ID))
	} else {
		h.Write([]byte(it.RelPath))
	}
	return h.Sum64()
}

// sameCountChunk returns another chunk size under which some multi-chunk file of the tree
// keeps its chunk count (the largest such change: the two geometries then differ most), or
// base when there is none.
func sameCountChunk(x xcase, base int) int {
	for d := 80; d >= 1; d-- {
		for _, c2 := range []int{base + d, base - d} {
			if c2 < 1 {
				continue
			}
			for _, f := range x.Tree.Files() {
				n1, n2 := (f.Size+base-1)/base, (f.Size+c2-1)/c2
				if n1 >= 2 && n1 == n2 {
					return c2
				}
			}
		}
	}
	return base
}

// crashEnv is a materialised workload shared by the runs of one history.
type crashEnv struct {
	dir  string
	src  string
	out  string
	p    *prepared // parent-side view (manifest, expected tree)
	spec childSpec
	seq  int
}

func newCrashEnv(x xcase, label string) (*crashEnv, error) {
	dir := caseDir(label)
	p, err := prepare(x, dir)
	if err != nil {
		os.RemoveAll(dir)
		return nil, err
	}
	e := &crashEnv{dir: dir, src: filepath.Join(dir, "src"), out: p.out, p: p}
	e.spec = childSpec{Src: e.src, Base: x.Tree.Base, Out: p.out, Chunk: x.Chunk, Streams: x.Streams, NoRootDir: x.NoRootDir, Mode: x.Mode, QUICVis: x.QUICVis, Segment: x.Segment}
	return e, nil
}

func (e *crashEnv) close() { os.RemoveAll(e.dir) }

func (e *crashEnv) run(sp childSpec) (childOutcome, error) {
	e.seq++
	return runChild(sp, e.dir, e.seq)
}

// baseDir is where the receiver puts files (and its metadata directory).
func (e *crashEnv) baseDir() string { return e.p.baseDirOf() }

// c05Inspect applies the C05 oracle to the disk state after a kill.
// prevLoadable: sidecar paths that were loadable before the run or whose flush completed (renamed) during it.
func c05Inspect(e *crashEnv, oc childOutcome, loadableBefore map[string]bool) (sig, detail string, setBits, unflushed int) {
	written := map[string]map[int64]bool{} // rel path -> chunk indices with a journaled write
	renamed := map[string]bool{}
	for _, j := range oc.Journal {
		switch j.Site {
		case "recv.chunk.written":
			if written[j.Detail] == nil {
				written[j.Detail] = map[int64]bool{}
			}
			written[j.Detail][j.Num] = true
		case "sidecar.flush.renamed":
			renamed[j.Detail] = true
		}
	}
	scs := scanSidecars(e.out, e.p.m)
	for _, d := range scs {
		if !d.Loadable {
			if loadableBefore[d.Path] || renamed[d.Path] {
				return "metadata-not-atomically-replaced", fmt.Sprintf("%s was valid before (loadable before the run: %v, flush completed in this run: %v) but is unreadable after the kill", d.Path, loadableBefore[d.Path], renamed[d.Path]), 0, 0
			}
			continue
		}
		if d.Item == nil {
			continue // metadata of a file that is not part of this manifest: ignored by the tool (identity check)
		}
		it := d.Item
		if d.SC.FileSize != it.Size || d.SC.ChunkSize == 0 {
			continue // would be discarded by the identity check
		}
		src := e.p.sourceBytes(*it)
		fp := filepath.Join(e.baseDir(), filepath.FromSlash(it.RelPath))
		got, _ := os.ReadFile(fp)
		// the metadata is read under its own geometry: whatever chunk size it states is the
		// one a later run with that chunk size would trust it under
		c := int(d.SC.ChunkSize)
		for i := 0; i < int(d.SC.TotalChunks); i++ {
			if !d.SC.IsComplete(uint32(i)) {
				continue
			}
			setBits++
			lo, hi := i*c, (i+1)*c
			if hi > len(src) {
				hi = len(src)
			}
			if lo >= hi {
				continue // metadata for an empty file marks nothing meaningful
			}
			if hi > len(got) || !bytes.Equal(got[lo:hi], src[lo:hi]) {
				return "metadata-claims-chunk-not-in-file", fmt.Sprintf("after the kill %s marks chunk %d of %s complete, but bytes [%d,%d) of the output file (length %d) do not equal the source", d.Path, i, it.RelPath, lo, hi, len(got)), setBits, 0
			}
		}
		for idx := range written[it.RelPath] {
			if !d.SC.IsComplete(uint32(idx)) {
				unflushed++
			}
		}
	}
	for p := range loadableBefore {
		found := false
		for _, d := range scs {
			if d.Path == p {
				found = true
			}
		}
		if !found {
			// a sidecar may legitimately be deleted when its identity no longer matches; with an unchanged
			// workload that does not happen, so disappearance means a non-atomic update
			return "metadata-not-atomically-replaced", fmt.Sprintf("%s existed and was valid before the run but is gone after the kill", p), setBits, unflushed
		}
	}
	return "", "", setBits, unflushed
}

// loadableSet lists the metadata files that are valid for a run with the given chunk size
// (same identity: the tool keeps and updates those; metadata of another geometry is
// deliberately discarded and recreated, which is not an "update").
func loadableSet(e *crashEnv, runChunk int) map[string]bool {
	m := map[string]bool{}
	for _, d := range scanSidecars(e.out, e.p.m) {
		if d.Loadable && d.Item != nil && d.SC.FileSize == d.Item.Size && int(d.SC.ChunkSize) == runChunk {
			m[d.Path] = true
		}
	}
	return m
}

// c04CheckAdvertised: every chunk marked in loadable, identity-matching metadata on disk before a run
// must be advertised as present in that run's first FileResumeInfo, and must not be sent again if it
// lies below the highest marked chunk.
func c04CheckAdvertised(e *crashEnv, before []diskSidecar, res *childResult, tail int, runChunk int) (string, string) {
	infos := map[uint64]childInfo{}
	for _, in := range res.Infos {
		infos[in.Key] = in
	}
	sent := map[uint64]map[uint32]bool{}
	for _, f := range res.Frames {
		if sent[f.Key] == nil {
			sent[f.Key] = map[uint32]bool{}
		}
		sent[f.Key][f.Index] = true
	}
	for _, d := range before {
		if !d.Loadable || d.Item == nil || d.SC.FileSize != d.Item.Size || int(d.SC.ChunkSize) != runChunk {
			continue
		}
		if d.Item.Size == 0 {
			continue
		}
		key := fileKeyOf(*d.Item)
		in, ok := infos[key]
		if !ok {
			if len(res.Infos) == 0 && (res.RecvErr != "" || res.SendErr != "") {
				continue // the run failed before any report (interrupted right away)
			}
			// the file may not have been begun before the run ended
			continue
		}
		bm, _ := hex.DecodeString(in.Bitmap)
		highest := -1
		for i := 0; i < int(d.SC.TotalChunks); i++ {
			if d.SC.IsComplete(uint32(i)) {
				highest = i
				if i/8 >= len(bm) || bm[i/8]&(1<<uint(i%8)) == 0 {
					return "marked-chunk-not-advertised", fmt.Sprintf("metadata on disk marks chunk %d of %s complete, but the resume report of the next run (bitmap %s) does not advertise it", i, d.Item.RelPath, in.Bitmap)
				}
			}
		}
		for i := 0; i < highest-tail; i++ {
			if d.SC.IsComplete(uint32(i)) && sent[key][uint32(i)] {
				return "finished-chunk-requested-again", fmt.Sprintf("chunk %d of %s was marked complete and advertised (bitmap %s, highest %d) but was sent again", i, d.Item.RelPath, in.Bitmap, highest)
			}
		}
	}
	return "", ""
}

// runHistory executes a chain of interrupted runs followed by a final uninterrupted one and applies
// the C04 and C05 oracles. which selects the property whose failures are reported ("C04" or "C05").
type historyStats struct {
	kills, killsAfterMark, killsInFlush, drops, nontrivialKills int
	setBits, unflushed                                          int
	sites                                                       map[string]int
	tampers                                                     []string
}

func runHistory(cc crashCase, which string) (sig, detail string, st historyStats, err error) {
	st.sites = map[string]int{}
	e, err := newCrashEnv(cc.X, "hist")
	if err != nil {
		return "", "", st, err
	}
	defer e.close()
	// measure the number of hook hits of an uninterrupted run (into a scratch output directory)
	probe := e.spec
	probe.Out = filepath.Join(e.dir, "probe-out")
	probe.Kind = "none"
	for _, in := range cc.Chain {
		if in.FlushEvery > 0 && (probe.FlushEvery == 0 || in.FlushEvery < probe.FlushEvery) {
			probe.FlushEvery = in.FlushEvery // flushes add hook hits: measure K under the densest flush policy of the chain
		}
	}
	pc, perr := e.run(probe)
	if perr != nil {
		return "", "", st, perr
	}
	os.RemoveAll(probe.Out)
	if pc.Result == nil || pc.Result.SendErr != "" || pc.Result.RecvErr != "" {
		return "", "", st, fmt.Errorf("uninterrupted probe run failed: %+v", pc.Result)
	}
	K := pc.Result.Hits
	if K == 0 {
		return "", "", st, fmt.Errorf("no hook hits")
	}
	siteCount := map[string]int{}
	for _, j := range pc.Journal {
		siteCount[j.Site]++
	}
	for i, in := range cc.Chain {
		sp := e.spec
		sp.Kind, sp.FlushEvery, sp.ExitFlush, sp.HashDelay = in.Kind, in.FlushEvery, in.ExitFlush, cc.Delay
		sp.KillAt = 1 + int(in.At*float64(K))
		if sp.KillAt > K {
			sp.KillAt = K
		}
		if in.Site != "" && siteCount[in.Site] > 0 {
			sp.KillSite = in.Site
			sp.KillAt = 1 + int(in.At*float64(siteCount[in.Site]))
		}
		if in.ChunkDelta == 99 {
			sp.Chunk = sameCountChunk(cc.X, e.spec.Chunk)
		} else if sp.Chunk+in.ChunkDelta >= 1 {
			sp.Chunk += in.ChunkDelta
		}
		if in.Kind == "cut" {
			// one data stream ends in mid-frame (position: a fraction of what that stream carried
			// in the uninterrupted run) while the others go on; the process survives
			sp.Kind, sp.KillAt, sp.KillSite = "cut", 0, ""
			var ords []int
			for o, n := range pc.Result.StreamBytes {
				if o >= 1 && n > 0 {
					ords = append(ords, o)
				}
			}
			sort.Ints(ords)
			if len(ords) == 0 {
				sp.Kind = "none"
			} else {
				o := ords[int(in.At*1000)%len(ords)]
				sp.CutOrdinal, sp.CutOffset = o, int64(in.At*float64(pc.Result.StreamBytes[o]))
			}
		}
		if in.Kind == "flip" {
			// One bit of a chunk payload is inverted in flight - a chunk that is not the last one of
			// a file with three or more chunks - and that payload arrives 120 ms late, so that the
			// rest of the file, its last chunk included, is there first; the goroutine that holds
			// the verified last chunk waits with writing it until the checksum failure has been
			// processed (failure-finalize of the file) - the legal schedule "a stream fails while
			// another still has a chunk of the same file in its hands". The process survives.
			sp.Kind = "kill" // unless the damage can be placed (first run of a chain)
			if i == 0 {
				counts := map[string]uint32{}
				for _, fr := range pc.Result.Frames {
					k := fmt.Sprint(fr.Key)
					if fr.Index+1 > counts[k] {
						counts[k] = fr.Index + 1
					}
				}
				eligible := 0
				for _, fr := range pc.Result.Frames {
					if n := counts[fmt.Sprint(fr.Key)]; n >= 3 && fr.Index+1 < n {
						eligible++
					}
				}
				if eligible > 0 {
					sp.Kind, sp.KillAt, sp.KillSite = "flip", 0, ""
					sp.Chunk = e.spec.Chunk // the chunk counts are those of the probe's geometry
					sp.FlipCounts, sp.FlipTarget, sp.FlipDelayMs = counts, 1+int(in.At*float64(eligible))%eligible, 120
					sp.HoldLast = true
				}
			}
		}
		if in.Kind == "wfail" {
			// writes to any file fail beyond an offset inside the largest file (disk-full like fault)
			maxSize := 0
			for _, f := range cc.X.Tree.Files() {
				if f.Size > maxSize {
					maxSize = f.Size
				}
			}
			sp.Kind, sp.KillAt = "none", 0
			sp.FsizeLimit = int64(in.At*float64(maxSize)) + 1
			if sp.FsizeLimit < 600 {
				sp.FsizeLimit = 600 // keep journal, result and metadata files writable
			}
			if maxSize <= 600 {
				sp.FsizeLimit = 0
			}
		}
		if which == "C06" && i > 0 {
			if d := tamperData(e, in.Tamper, in.TamperFile, in.TamperFrac); d != "" {
				st.sites["tamper:"+in.Tamper]++
				st.tampers = append(st.tampers, fmt.Sprintf("before run %d: %s", i+1, d))
			}
		}
		before := scanSidecars(e.out, e.p.m)
		loadable := loadableSet(e, sp.Chunk)
		oc, rerr := e.run(sp)
		if rerr != nil {
			return "", "", st, rerr
		}
		if os.Getenv("VERIF_DEBUG_HIST") != "" {
			fmt.Printf("DEBUG spec=%+v\n result=%+v\n", sp, oc.Result)
			for _, j := range oc.Journal {
				fmt.Printf("   %+v\n", j)
			}
			fmt.Printf(" probe frames=%+v\n", pc.Result.Frames)
		}
		desc := fmt.Sprintf("run %d of the chain (%s at hook hit %d of %d, flush every %d marks)", i+1, in.Kind, sp.KillAt, K, in.FlushEvery)
		if oc.Result != nil && which == "C04" {
			if s, d := c04CheckAdvertised(e, before, oc.Result, 0, sp.Chunk); s != "" {
				return s, desc + ": " + d, st, nil
			}
		}
		if oc.Killed {
			st.kills++
			last := oc.Journal[len(oc.Journal)-1]
			st.sites[last.Site]++
			if strings.HasPrefix(last.Site, "sidecar.flush") {
				st.killsInFlush++
			}
			s, d, bits, unfl := c05Inspect(e, oc, loadable)
			st.setBits += bits
			st.unflushed += unfl
			marked := false
			for _, j := range oc.Journal {
				if j.Site == "recv.chunk.marked" {
					marked = true
				}
			}
			if marked {
				st.killsAfterMark++
			}
			if bits > 0 && unfl > 0 {
				st.nontrivialKills++
			}
			if s != "" && which == "C05" {
				return s, desc + ", killed at " + last.Site + ": " + d, st, nil
			}
		} else if sp.Kind == "cut" || sp.Kind == "flip" {
			if sp.Kind == "cut" {
				st.sites["stream-cut-run"]++
			} else if oc.Result != nil && oc.Result.Flipped {
				st.sites["payload-damaged-in-flight-run"]++
				if oc.Result.HeldReleased > 0 {
					st.sites["last-chunk-written-after-failure-finalize"]++
				}
			}
			s, d, bits, unfl := c05Inspect(e, oc, loadable)
			st.setBits += bits
			st.unflushed += unfl
			if s != "" && which == "C05" {
				if sp.Kind == "flip" {
					return s, desc + fmt.Sprintf(", payload of eligible data frame %d damaged in flight and late, last chunks held back: ", sp.FlipTarget) + d, st, nil
				}
				return s, desc + fmt.Sprintf(", data stream %d ended at byte %d while the others went on: ", sp.CutOrdinal, sp.CutOffset) + d, st, nil
			}
		} else if in.Kind == "drop" {
			st.drops++
		} else if in.Kind == "wfail" && sp.FsizeLimit > 0 {
			st.sites["write-failure-run"]++
			s, d, bits, unfl := c05Inspect(e, oc, loadable)
			st.setBits += bits
			st.unflushed += unfl
			if s != "" && which == "C05" {
				return s, desc + fmt.Sprintf(", output writes failing beyond offset %d: ", sp.FsizeLimit) + d, st, nil
			}
		}
		if oc.Result != nil && oc.Result.SendErr == "" && oc.Result.RecvErr == "" && !oc.Result.Hung {
			break // the run completed before the interruption point was reached
		}
	}
	if which == "C05" {
		return "", "", st, nil
	}
	// final uninterrupted resumed run
	if which == "C06" {
		if d := tamperData(e, []string{"", "data-deleted", "data-shortened"}[cc.FinalTamper%3], cc.FinalTamperFile, 0.5); d != "" {
			st.tampers = append(st.tampers, "before the final run: "+d)
		}
	}
	before := scanSidecars(e.out, e.p.m)
	fin := e.spec
	fin.Kind = "none"
	fin.HashDelay = cc.Delay
	if cc.FinalDelta == 99 {
		fin.Chunk = sameCountChunk(cc.X, e.spec.Chunk)
	} else if fin.Chunk+cc.FinalDelta >= 1 {
		fin.Chunk += cc.FinalDelta
	}
	oc, rerr := e.run(fin)
	if rerr != nil {
		return "", "", st, rerr
	}
	r := oc.Result
	if r == nil {
		return "", "", st, fmt.Errorf("final run produced no result: %s", oc.Output)
	}
	if which == "C04" {
		if s, d := c04CheckAdvertised(e, before, r, 0, fin.Chunk); s != "" {
			return s, "final resumed run: " + d, st, nil
		}
	}
	if r.Hung {
		kind := r.HangKind
		if kind == "recv-reader-waiting-for-unknown-file" {
			kind = "late-resend-after-finalize"
		}
		return "final-resume-hung:" + kind, fmt.Sprintf("the final resumed run stalled: %+v", *r), st, nil
	}
	if which == "C06" && (r.SendErr != "" || r.RecvErr != "") {
		return "", "", st, nil // fails loudly: allowed for tampered state
	}
	if r.SendErr != "" || r.RecvErr != "" {
		return "final-resume-failed:" + errClass(r.SendErr+" "+r.RecvErr), fmt.Sprintf("the final resumed run failed: send=%q recv=%q", r.SendErr, r.RecvErr), st, nil
	}
	if diff := e.p.checkTree(); diff != "" {
		if which == "C06" {
			return "resume-skipped-data:interrupted-after-tamper", fmt.Sprintf("the final resumed run succeeded but %s | tampering: %v", diff, st.tampers), st, nil
		}
		return "final-tree-differs", "the final resumed run succeeded but " + diff, st, nil
	}
	return "", "", st, nil
}

// crashKinds: "cut" (one data stream silently ends at a fraction of its bytes while the others
// go on) often falls into a frame header, which the receiver takes for an orderly end of the
// stream; both endpoints then wait until the runner's idle detector gives up, about 15 s per
// run: it is drawn in the thorough tier only. "flip" damages one chunk payload in flight (the
// receiver fails at once: checksum) and holds the file's last chunk back, see runHistory.
func crashKinds() []string {
	if verifkit.Thorough() {
		return []string{"kill", "kill", "kill", "kill", "drop", "drop", "wfail", "wfail", "cut", "flip", "flip"}
	}
	return []string{"kill", "kill", "kill", "drop", "wfail", "flip"}
}

func genCrashCase(t *rapid.T) crashCase {
	// (a few chunk sizes above one memory page and not a multiple of it: buffers of such sizes come from other pool classes)
	x := xcase{Chunk: rapid.OneOf(rapid.IntRange(16, 512), rapid.SampledFrom([]int{16, 64, 100}), rapid.SampledFrom([]int{100, 4097, 5000, 6000})).Draw(t, "chunk")}
	x.Tree = verifnet.GenTree(t, x.Chunk, verifnet.GenOpts{MaxFiles: 4, MinFiles: 1, MaxChunks: 12})
	x.Streams = rapid.IntRange(1, 4).Draw(t, "streams")
	x.Conns = 1
	x.SendResume, x.RecvResume = true, true
	x.NoRootDir = rapid.IntRange(0, 3).Draw(t, "rootdir") != 0
	x.Mode = rapid.SampledFrom([]string{"scan", "paths"}).Draw(t, "mode")
	x.QUICVis = rapid.Bool().Draw(t, "quicvis")
	x.Segment = rapid.SampledFrom([]int{0, 0, 1, 1, 7, 13}).Draw(t, "segment")
	cc := crashCase{X: x, Delay: rapid.SampledFrom([]int{0, 0, 0, 2, 10}).Draw(t, "hashdelay")}
	n := rapid.IntRange(1, 3).Draw(t, "chain")
	for i := 0; i < n; i++ {
		cc.Chain = append(cc.Chain, interruption{
			Kind:       rapid.SampledFrom(crashKinds()).Draw(t, fmt.Sprintf("ikind%d", i)),
			At:         frac(t, fmt.Sprintf("iat%d", i)),
			FlushEvery: rapid.SampledFrom([]int{0, 1, 1, 2, 3}).Draw(t, fmt.Sprintf("iflush%d", i)),
			ExitFlush:  rapid.Bool().Draw(t, fmt.Sprintf("iexitflush%d", i)),
			ChunkDelta: rapid.SampledFrom([]int{0, 0, 0, 0, 1, -1, 2, 5, -3, 99, 99}).Draw(t, fmt.Sprintf("ichunk%d", i)),
			Site:       rapid.SampledFrom([]string{"", "", "", "recv.chunk.marked", "recv.chunk.written", "sidecar.flush.begin", "sidecar.flush.tmpwritten", "sidecar.flush.renamed"}).Draw(t, fmt.Sprintf("isite%d", i)),
		})
	}
	cc.Chain[0].ChunkDelta = 0
	cc.FinalDelta = rapid.SampledFrom([]int{0, 0, 0, 1, -1, 3, 99, 99}).Draw(t, "final_chunk")
	return cc
}

func recordHistory(rec *verifkit.Recorder, st historyStats) {
	rec.ClassN("kills", int64(st.kills))
	rec.ClassN("kills-after-a-mark", int64(st.killsAfterMark))
	rec.ClassN("kills-inside-flush", int64(st.killsInFlush))
	rec.ClassN("connection-drops", int64(st.drops))
	rec.ClassN("set-bits-checked", int64(st.setBits))
	keys := make([]string, 0, len(st.sites))
	for k := range st.sites {
		keys = append(keys, k)
	}
	sort.Strings(keys)
	for _, k := range keys {
		rec.ClassN("kill-at/"+k, int64(st.sites[k]))
	}
}

func TestVerifC04Histories(t *testing.T) {
	rec := verifkit.NewRecorder("C04", "histories")
	defer rec.Flush()
	rapid.Check(t, func(rt *rapid.T) {
		cc := genCrashCase(rt)
		if rapid.IntRange(0, 3).Draw(rt, "regeometry") == 2 {
			// one interrupted attempt with several streams (marks with holes), then the final
			// attempt with another chunk size under which some file keeps its chunk count
			first := cc.Chain[0]
			first.Kind, first.FlushEvery, first.Site, first.ChunkDelta = "kill", 1, "", 0
			if first.At < 0.35 {
				first.At += 0.35
			}
			cc.Chain = []interruption{first}
			cc.FinalDelta = 99
			if cc.X.Streams < 2 {
				cc.X.Streams = 3
			}
			rec.Class("final-attempt-with-same-count-chunk-size")
		}
		sig, detail, st, err := runHistory(cc, "C04")
		if err != nil {
			rec.Class("not-run")
			rec.Note("history not run: %v", err)
			return
		}
		rec.Eval()
		recordHistory(rec, st)
		if len(cc.Chain) >= 2 {
			rec.Class("chain>=2")
		}
		if sig != "" {
			rec.Fail(rt, sig, detail+" | "+cc.String())
			return
		}
		if st.killsAfterMark > 0 {
			rec.NonTrivial(fmt.Sprintf("%v|%s", cc.Chain, cc.X.fingerprint()))
		}
		if rec.SampleWanted() {
			rec.Sample(cc.String())
		}
	})
}

func TestVerifC05Kills(t *testing.T) {
	rec := verifkit.NewRecorder("C05", "kills")
	defer rec.Flush()
	rapid.Check(t, func(rt *rapid.T) {
		cc := genCrashCase(rt)
		for i := range cc.Chain {
			if cc.Chain[i].Kind != "wfail" {
				cc.Chain[i].Kind = "kill"
			}
			if cc.Chain[i].FlushEvery == 0 && i%2 == 0 {
				cc.Chain[i].FlushEvery = 1
			}
		}
		if cc.X.Streams < 2 {
			cc.X.Streams = 2 + len(cc.Chain)%3
		}
		if rapid.IntRange(0, 3).Draw(rt, "regeometry") == 0 {
			// an attempt that left marks, then an attempt with another chunk size under which some
			// file keeps its chunk count (the old marks then describe other byte ranges)
			first := cc.Chain[0]
			first.Kind, first.FlushEvery, first.Site = "kill", 1, ""
			if first.At < 0.4 {
				first.At += 0.4
			}
			second := first
			second.At = frac(rt, "regeometry_at")
			second.ChunkDelta = 99
			second.Site = rapid.SampledFrom([]string{"", "recv.filebegin.registered", "recv.chunk.marked", "sidecar.flush.renamed"}).Draw(rt, "regeometry_site")
			cc.Chain = []interruption{first, second}
			rec.Class("chunk-size-changed-keeping-a-chunk-count")
		}
		sig, detail, st, err := runHistory(cc, "C05")
		if err != nil {
			rec.Class("not-run")
			rec.Note("history not run: %v", err)
			return
		}
		rec.Eval()
		recordHistory(rec, st)
		if sig != "" {
			rec.Fail(rt, sig, detail+" | "+cc.String())
			return
		}
		if st.nontrivialKills > 0 {
			rec.NonTrivial(fmt.Sprintf("%v|%s", cc.Chain, cc.X.fingerprint()))
		}
		if rec.SampleWanted() {
			rec.Sample(cc.String())
		}
	})
}

// TestVerifC05Enumerate kills a fixed workload at EVERY hook hit k = 1..K, for two flush policies.
func TestVerifC0405Enumerate(t *testing.T) {
	which := os.Getenv("VERIF_CRASH_PROP")
	if which != "C04" && which != "C05" {
		t.Skip("VERIF_CRASH_PROP not set")
	}
	rec := verifkit.NewRecorder(which, "crashpoints")
	defer rec.Flush()
	sh, nsh := verifkit.Shard()
	type wl struct{ files, chunks, streams int }
	wls := []wl{{1, 4, 2}}
	if verifkit.Thorough() {
		wls = []wl{{1, 4, 2}, {2, 3, 2}, {1, 8, 3}, {3, 2, 1}}
	}
	k := 0
	for _, w := range wls {
		x := xcase{Tree: gridTree(w.files, w.chunks, 32), Chunk: 32, Streams: w.streams, Conns: 1, SendResume: true, RecvResume: true, NoRootDir: true, Mode: "paths", QUICVis: true}
		// K from an uninterrupted run
		e, err := newCrashEnv(x, "enum")
		if err != nil {
			t.Fatal(err)
		}
		probe := e.spec
		probe.Kind = "none"
		probe.FlushEvery = 1
		pc, err := e.run(probe)
		e.close()
		if err != nil || pc.Result == nil {
			t.Fatalf("probe: %v", err)
		}
		K := pc.Result.Hits
		for _, fe := range []int{1, 0} {
			for at := 1; at <= K; at++ {
				k++
				if k%nsh != sh {
					continue
				}
				cc := crashCase{X: x, Chain: []interruption{{Kind: "kill", At: (float64(at) - 0.5) / float64(K), FlushEvery: fe}}}
				for _, prop := range []string{which} {
					sig, detail, st, err := runHistory(cc, prop)
					if err != nil {
						rec.Class("not-run")
						continue
					}
					rec.Eval()
					recordHistory(rec, st)
					if sig != "" {
						rec.Fail(t, sig, fmt.Sprintf("workload files=%d chunks=%d streams=%d, kill at hook hit %d of %d, flush every %d marks: %s", w.files, w.chunks, w.streams, at, K, fe, detail))
						continue
					}
					rec.NonTrivial(fmt.Sprintf("%v/%d/%d", w, at, fe))
				}
			}
		}
		rec.Extra(fmt.Sprintf("crash_points_workload_%d_%d_%d", w.files, w.chunks, w.streams), K)
		// second block: the first run is killed half way, the second run uses another chunk size that
		// keeps the chunk count (what a changed sender heuristic can produce) and is killed at every k
		x2 := x
		x2.Tree = verifnet.Tree{Base: "grid", Nodes: []verifnet.Node{{Rel: "f00.bin", Size: 250*w.chunks - 40, Seed: 77}}}
		x2.Chunk = 250
		for at := 1; at <= K; at++ {
			k++
			if k%nsh != sh {
				continue
			}
			cc := crashCase{X: x2, Chain: []interruption{{Kind: "kill", Site: "sidecar.flush.renamed", At: 0.6, FlushEvery: 1}, {Kind: "kill", At: (float64(at) - 0.5) / float64(K), FlushEvery: 1, ChunkDelta: 99}}}
			sig, detail, st, err := runHistory(cc, which)
			if err != nil {
				rec.Class("not-run")
				continue
			}
			rec.Eval()
			recordHistory(rec, st)
			rec.Class("chunk-size-changed-between-runs")
			if sig != "" {
				rec.Fail(t, sig, fmt.Sprintf("file of %d bytes, chunk 250 then another chunk size with the same chunk count; first run killed half way, second run killed at hook hit %d of %d: %s", 250*w.chunks-40, at, K, detail))
				continue
			}
			rec.NonTrivial(fmt.Sprintf("resize/%v/%d", w, at))
		}
	}
	rec.SetExhaustive(true)
}
