package verifxfer

import (
	"bufio"
	"encoding/binary"
	"encoding/hex"
	"encoding/json"
	"fmt"
	"os"
	"os/exec"
	"os/signal"
	"path/filepath"
	"strings"
	"sync"
	"sync/atomic"
	"syscall"
	"testing"
	"time"

	"github.com/sheerbytes/sheerbytes/internal/transfer"
	"github.com/sheerbytes/sheerbytes/internal/verifhook"
	"github.com/sheerbytes/sheerbytes/internal/verifkit"
	"github.com/sheerbytes/sheerbytes/internal/verifnet"
	"github.com/sheerbytes/sheerbytes/pkg/manifest"
)

// ---- child-process runner shared by C04 and C05 ---------------------------------------
//
// One "run" executes sender and receiver inside a child process (this test binary
// re-executed) over the in-memory transport, so that the only state surviving the run is
// the receiver's output directory. The child journals every crash-point hook hit and
// SIGKILLs itself at the drawn hit.

var crashSites = map[string]bool{
	"recv.filebegin.truncated": true, "recv.chunk.written": true, "recv.chunk.marked": true,
	"sidecar.flush.begin": true, "sidecar.flush.tmpwritten": true, "sidecar.flush.renamed": true,
	"recv.finalize.before": true, "recv.finalize.after": true,
}

type childSpec struct {
	Src         string // parent directory holding the materialised tree
	Base        string // tree base name
	Out         string
	Chunk       int
	Streams     int
	NoRootDir   bool
	Mode        string
	QUICVis     bool
	Kind        string // "none", "kill" (SIGKILL at hook hit KillAt), "drop" (connection lost at hook hit KillAt)
	KillAt      int
	KillSite    string // "" = count every crash-point hit; else only hits of this site count for KillAt
	FlushEvery  int    // every n-th chunk mark triggers transfer.FlushAllFlushers() concurrently (0 = never)
	ExitFlush   bool   // after a drop: flush metadata before exiting (SIGINT path) or not (os.Exit path)
	Journal     string
	Result      string
	HashDelay   int
	FsizeLimit  int64             // >0: RLIMIT_FSIZE of the child: writes beyond this file offset fail (disk-full like fault)
	Segment     int               // >0: a read on the transport returns at most this many bytes (records arrive in pieces)
	CutOrdinal  int               // Kind "cut": this data stream (ordinal >= 1) ends (FIN) at byte CutOffset of the sender's
	CutOffset   int64             // direction while every other stream goes on
	FlipCounts  map[string]uint32 // Kind "flip": chunks per file key (decimal) as seen in the uninterrupted run
	FlipTarget  int               // Kind "flip": the n-th data frame that is not the last chunk of a file with >= 3 chunks gets one
	FlipDelayMs int               // payload bit inverted in flight and arrives this late (the receiver's checksum then fails)
	HoldLast    bool              // the goroutine that received a file's last chunk waits between payload check and write
	//                  until a failure-finalize of that file has run (or 300 ms): "a stream fails while another
	//                  still has a verified chunk of the same file in its hands"
}

type childResult struct {
	SendErr, RecvErr string
	Hung             bool
	HangKind         string
	Infos            []childInfo // first FileResumeInfo per file in wire order
	Frames           []childFrame
	Hits             int
	StreamBytes      map[int]int64 // bytes the sender wrote per stream ordinal (for placing a cut)
	Flipped          bool          // Kind "flip": the damage was applied
	HeldReleased     int           // HoldLast: last chunks written after a failure-finalize of their file
	HeldTimedOut     int           // HoldLast: last chunks written after 300 ms without one
}
type childInfo struct {
	FileID string
	Total  uint32
	Bitmap string
	Last   uint32
	Key    uint64
}
type childFrame struct {
	Key   uint64
	Index uint32
	Ord   int    // data stream ordinal
	Off   int64  // offset of the frame on that stream
	Len   uint32 // payload length
}

// TestVerifChild is the child entry point; it does nothing unless VERIF_CHILD is set.
func TestVerifChild(t *testing.T) {
	raw := os.Getenv("VERIF_CHILD")
	if raw == "" {
		return
	}
	var sp childSpec
	if err := json.Unmarshal([]byte(raw), &sp); err != nil {
		fmt.Println("bad spec:", err)
		os.Exit(3)
	}
	os.Exit(childMain(sp))
}

func childMain(sp childSpec) int {
	jf, err := os.OpenFile(sp.Journal, os.O_CREATE|os.O_WRONLY|os.O_APPEND, 0644)
	if err != nil {
		return 3
	}
	if sp.FsizeLimit > 0 {
		signal.Ignore(syscall.SIGXFSZ)
		lim := syscall.Rlimit{Cur: uint64(sp.FsizeLimit), Max: uint64(sp.FsizeLimit)}
		if err := syscall.Setrlimit(syscall.RLIMIT_FSIZE, &lim); err != nil {
			fmt.Println("setrlimit:", err)
			return 3
		}
	}
	root := filepath.Join(sp.Src, sp.Base)
	x := xcase{Chunk: sp.Chunk, Streams: sp.Streams, Conns: 1, SendResume: true, RecvResume: true, NoRootDir: sp.NoRootDir, Mode: sp.Mode, QUICVis: sp.QUICVis}
	x.Tree.Base = sp.Base
	if err := os.MkdirAll(sp.Out, 0755); err != nil {
		return 3
	}
	p, err := prepareAt(x, root, sp.Out)
	if err != nil {
		fmt.Println("prepare:", err)
		return 3
	}
	tap := &verifkit.Tap{}
	var flipMu sync.Mutex
	flipHdr := map[int][]byte{}
	var flipSeen, flipOrd int
	var flipOff int64
	var flipDone bool
	pair, err := p.newPair(func(int) verifkit.MemOptions {
		o := verifkit.MemOptions{QUICVisibility: sp.QUICVis, Tap: tap, Segment: sp.Segment}
		if sp.Kind == "cut" && sp.CutOrdinal >= 1 {
			o.Fault = &verifkit.Fault{Kind: verifkit.FaultTruncate, Ordinal: sp.CutOrdinal, Dir: verifkit.AtoB, Offset: sp.CutOffset}
		}
		if sp.Kind == "flip" {
			o.Mutate = func(ord int, d verifkit.Dir, off int64, b []byte) []byte {
				if d != verifkit.AtoB || ord == 0 {
					return nil
				}
				flipMu.Lock()
				defer flipMu.Unlock()
				// the sender writes a frame as two pieces: 20 header bytes, then the payload
				h := flipHdr[ord]
				if h == nil {
					if len(b) == 20 {
						flipHdr[ord] = append([]byte(nil), b...)
					}
					return nil
				}
				flipHdr[ord] = nil
				key, idx, ln := binary.BigEndian.Uint64(h[0:8]), binary.BigEndian.Uint32(h[8:12]), binary.BigEndian.Uint32(h[12:16])
				total := sp.FlipCounts[fmt.Sprint(key)]
				if flipDone || int(ln) != len(b) || total < 3 || idx+1 >= total {
					return nil
				}
				flipSeen++
				if flipSeen != sp.FlipTarget {
					return nil
				}
				flipDone, flipOrd, flipOff = true, ord, off
				alt := append([]byte(nil), b...)
				alt[len(alt)/2] ^= 0x40
				return alt
			}
			o.Latency = func(ord int, d verifkit.Dir, off int64) time.Duration {
				flipMu.Lock()
				defer flipMu.Unlock()
				if flipDone && d == verifkit.AtoB && ord == flipOrd && off == flipOff {
					return time.Duration(sp.FlipDelayMs) * time.Millisecond
				}
				return 0
			}
		}
		return o
	})
	if err != nil {
		return 3
	}
	// HoldLast: last chunk index of every file with at least three chunks, by relative path
	lastIdx := map[string]int64{}
	for _, it := range p.m.Items {
		if !it.IsDir && sp.Chunk > 0 {
			if n := (int64(it.Size) + int64(sp.Chunk) - 1) / int64(sp.Chunk); n >= 3 {
				lastIdx[it.RelPath] = n - 1
			}
		}
	}
	var holdMu sync.Mutex
	holds := map[string]chan struct{}{}
	holdCh := func(rel string) chan struct{} {
		holdMu.Lock()
		defer holdMu.Unlock()
		if holds[rel] == nil {
			holds[rel] = make(chan struct{})
		}
		return holds[rel]
	}
	var heldReleased, heldTimedOut atomic.Int64
	var hits atomic.Int64
	var marks atomic.Int64
	var siteHits atomic.Int64
	var jmu sync.Mutex
	verifhook.Set(func(name, detail string, n int64) {
		if name == "send.verify.hash.before" && sp.HashDelay > 0 {
			time.Sleep(time.Duration(sp.HashDelay) * time.Millisecond)
		}
		if sp.HoldLast {
			switch name {
			case "send.chunk.before":
				// in memory a worker would otherwise drain a whole file on its stream before
				// the next worker is scheduled: let the chunks of a file spread over the streams
				time.Sleep(2 * time.Millisecond)
			case "recv.chunk.payload":
				if last, ok := lastIdx[detail]; ok && n == last {
					select {
					case <-holdCh(detail):
						heldReleased.Add(1)
					case <-time.After(300 * time.Millisecond):
						heldTimedOut.Add(1)
					}
				}
			case "recv.finalize.after":
				holdMu.Lock()
				ch := holds[detail]
				if ch == nil {
					ch = make(chan struct{})
					holds[detail] = ch
				}
				select {
				case <-ch:
				default:
					close(ch)
				}
				holdMu.Unlock()
			}
		}
		if !crashSites[name] {
			return
		}
		jmu.Lock()
		h := hits.Add(1)
		fmt.Fprintf(jf, "%d %s %s %d\n", h, name, strings.ReplaceAll(detail, " ", "\\x20"), n)
		jmu.Unlock()
		if name == "recv.chunk.marked" && sp.FlushEvery > 0 && marks.Add(1)%int64(sp.FlushEvery) == 0 {
			go transfer.FlushAllFlushers()
		}
		trigger := sp.KillAt > 0 && h == int64(sp.KillAt)
		if sp.KillSite != "" {
			trigger = false
			if name == sp.KillSite && siteHits.Add(1) == int64(sp.KillAt) {
				trigger = true
			}
		}
		if trigger {
			switch sp.Kind {
			case "kill":
				syscall.Kill(os.Getpid(), syscall.SIGKILL)
				select {} // never returns
			case "drop":
				for _, c := range pair.MemA {
					c.Abort()
				}
			}
		}
	})
	res := p.run(pair, 30*time.Second, 5*time.Second)
	verifhook.Set(nil)
	if sp.Kind == "drop" && sp.ExitFlush {
		transfer.FlushAllFlushers()
	}
	out := childResult{Hung: res.Hung, HangKind: res.HangKind, Hits: int(hits.Load()), HeldReleased: int(heldReleased.Load()), HeldTimedOut: int(heldTimedOut.Load())}
	flipMu.Lock()
	out.Flipped = flipDone
	flipMu.Unlock()
	if res.SendErr != nil {
		out.SendErr = res.SendErr.Error()
	}
	if res.RecvErr != nil {
		out.RecvErr = res.RecvErr.Error()
	}
	if !res.SendReturned {
		out.SendErr = "did not return"
	}
	if !res.RecvReturned {
		out.RecvErr = "did not return"
	}
	recs, _, _ := verifnet.ParseControl(tap.StreamBytes(0, verifkit.BtoA), false)
	seen := map[uint64]bool{}
	for _, r := range recs {
		if r.Type == verifnet.WResumeInfo && !seen[r.StreamID] {
			seen[r.StreamID] = true
			out.Infos = append(out.Infos, childInfo{FileID: r.FileID, Total: r.Total, Bitmap: hex.EncodeToString(r.Bitmap), Last: r.LastVer, Key: r.StreamID})
		}
	}
	out.StreamBytes = map[int]int64{}
	for k, n := range tap.Counts() {
		if k[1] == int(verifkit.AtoB) {
			out.StreamBytes[k[0]] = n
		}
	}
	for k := range tap.Counts() {
		if k[1] == int(verifkit.AtoB) && k[0] != 0 {
			for _, fr := range verifnet.ParseData(tap.StreamBytes(k[0], verifkit.AtoB)) {
				out.Frames = append(out.Frames, childFrame{Key: fr.Key, Index: fr.Index, Ord: k[0], Off: int64(fr.Offset), Len: fr.Len})
			}
		}
	}
	data, _ := json.Marshal(out)
	os.WriteFile(sp.Result, data, 0644)
	return 0
}

// journalEntry is one crash-point hook hit recorded by the child.
type journalEntry struct {
	N      int
	Site   string
	Detail string
	Num    int64
}

type childOutcome struct {
	Killed  bool
	Exit    int
	Result  *childResult
	Journal []journalEntry
	Output  string
}

// runChild executes one run in a child process.
func runChild(sp childSpec, workdir string, seq int) (childOutcome, error) {
	sp.Journal = filepath.Join(workdir, fmt.Sprintf("journal-%d.txt", seq))
	sp.Result = filepath.Join(workdir, fmt.Sprintf("result-%d.json", seq))
	os.Remove(sp.Journal)
	os.Remove(sp.Result)
	raw, _ := json.Marshal(sp)
	bin := os.Getenv("VERIF_TESTBIN")
	if bin == "" {
		bin = os.Args[0]
	}
	cmd := exec.Command(bin, "-test.run", "^TestVerifChild$", "-test.timeout", "120s")
	cmd.Env = append(os.Environ(), "VERIF_CHILD="+string(raw), "VERIF_OUT=", "VERIF_WORK="+workdir)
	cmd.Dir = workdir
	outb, err := cmd.CombinedOutput()
	var oc childOutcome
	oc.Output = string(outb)
	if err != nil {
		if ee, ok := err.(*exec.ExitError); ok {
			if ws, ok := ee.Sys().(syscall.WaitStatus); ok && ws.Signaled() && ws.Signal() == syscall.SIGKILL {
				oc.Killed = true
			} else {
				oc.Exit = ee.ExitCode()
			}
		} else {
			return oc, err
		}
	}
	if f, err := os.Open(sp.Journal); err == nil {
		sc := bufio.NewScanner(f)
		for sc.Scan() {
			var e journalEntry
			parts := strings.Fields(sc.Text())
			if len(parts) == 4 {
				fmt.Sscan(parts[0], &e.N)
				e.Site = parts[1]
				e.Detail = strings.ReplaceAll(parts[2], "\\x20", " ")
				fmt.Sscan(parts[3], &e.Num)
				oc.Journal = append(oc.Journal, e)
			}
		}
		f.Close()
	}
	if data, err := os.ReadFile(sp.Result); err == nil {
		var r childResult
		if json.Unmarshal(data, &r) == nil {
			oc.Result = &r
		}
	}
	if !oc.Killed && oc.Result == nil {
		return oc, fmt.Errorf("child neither killed nor produced a result (exit %d): %s", oc.Exit, oc.Output)
	}
	return oc, nil
}

// diskSidecar is what the parent finds on disk after a run.
type diskSidecar struct {
	Path     string
	Loadable bool
	SC       *transfer.Sidecar
	Item     *manifest.FileItem
}

// scanSidecars loads every *.sbxmap the tool itself would load.
func scanSidecars(out string, m manifest.Manifest) []diskSidecar {
	var res []diskSidecar
	byID := map[string]*manifest.FileItem{}
	for i := range m.Items {
		if !m.Items[i].IsDir {
			byID[m.Items[i].ID] = &m.Items[i]
		}
	}
	filepath.Walk(out, func(p string, info os.FileInfo, err error) error {
		if err != nil || info.IsDir() || !strings.HasSuffix(p, ".sbxmap") {
			return nil
		}
		if filepath.Base(filepath.Dir(p)) != verifnet.ResumeDirName {
			return nil
		}
		d := diskSidecar{Path: p}
		if sc, err := transfer.LoadSidecar(p); err == nil {
			d.Loadable, d.SC = true, sc
			d.Item = byID[sc.FileID]
		}
		res = append(res, d)
		return nil
	})
	return res
}
