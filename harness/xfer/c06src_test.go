package verifxfer

import (
	"fmt"
	"os"
	"path/filepath"
	"sort"
	"strings"
	"testing"
	"time"

	"github.com/sheerbytes/sheerbytes/internal/verifkit"
	"github.com/sheerbytes/sheerbytes/internal/verifnet"
	"pgregory.net/rapid"
)

// ---- C06 (source changed between two attempts) ------------------------------------------------
//
// "Resume metadata ... left over from a different file (other size, chunk size or identity)
// ... never causes data to be skipped." Here the metadata is not constructed by the harness
// but left by a real first attempt (complete, or cut by a connection loss), and the
// "different file" is produced the way a user produces it: the shared selection is a
// directory that holds regular files and symbolic links to regular files elsewhere; between
// the two attempts some of them are rewritten in place (same or other length, modification
// time moved by whole hours), a link is pointed at another file, or a file is replaced by a
// link / a link by a file. Both attempts scan the selection with the production scanner and
// resolver (ScanPaths + buildPathResolver) and run through the real endpoints.
// Oracle: if the second attempt reports success on both sides, the output tree equals the
// source as it is at that time (links followed); otherwise it must have failed loudly.
//
// Soundness: the tool identifies a file by path, size and modification time in seconds; a
// rewrite that keeps all three is indistinguishable by design and is not generated (every
// rewrite moves the modification time of the bytes that will be read by >= 1 h).

type srcNode struct {
	Rel  string
	Link bool // payload/<Rel> is a symbolic link to store/<Blob>
	Blob string
	Size int
	Seed uint64
	Gen  int // modification time = base + Gen hours
}

type srcChange struct {
	Kind string // rewrite-same-size, rewrite-other-size, retarget, file-to-link, link-to-file
	Idx  int
}

var srcBase = time.Date(2021, 3, 4, 5, 6, 7, 0, time.UTC)

func srcWrite(path string, n srcNode) error {
	if err := os.MkdirAll(filepath.Dir(path), 0755); err != nil {
		return err
	}
	if err := os.WriteFile(path, verifkit.Content(n.Seed, n.Size), 0644); err != nil {
		return err
	}
	mt := srcBase.Add(time.Duration(n.Gen) * time.Hour)
	return os.Chtimes(path, mt, mt)
}

// srcPlace (re)creates payload/<Rel> for the node: a regular file, or a blob in store/ plus a link to it.
func srcPlace(src string, n srcNode) error {
	p := filepath.Join(src, "payload", filepath.FromSlash(n.Rel))
	if err := os.MkdirAll(filepath.Dir(p), 0755); err != nil {
		return err
	}
	if fi, err := os.Lstat(p); err == nil && (fi.Mode()&os.ModeSymlink != 0) != n.Link {
		os.Remove(p)
	}
	if !n.Link {
		return srcWrite(p, n)
	}
	blob := filepath.Join(src, "store", n.Blob)
	if err := srcWrite(blob, n); err != nil {
		return err
	}
	if cur, err := os.Readlink(p); err == nil && cur == blob {
		return nil // rewritten in place below the unchanged link
	}
	os.Remove(p)
	return os.Symlink(blob, p)
}

func srcExpected(nodes []srcNode, prefix string) []verifnet.Entry {
	tr := verifnet.Tree{Base: "payload"}
	for _, n := range nodes {
		tr.Nodes = append(tr.Nodes, verifnet.Node{Rel: n.Rel, Size: n.Size, Seed: n.Seed})
	}
	sort.Slice(tr.Nodes, func(i, j int) bool { return tr.Nodes[i].Rel < tr.Nodes[j].Rel })
	return tr.Expected(prefix)
}

func TestVerifSrcC06Changed(t *testing.T) {
	rec := verifkit.NewRecorder("C06", "source-changed")
	defer rec.Flush()
	rapid.Check(t, func(rt *rapid.T) {
		x := xcase{Chunk: rapid.OneOf(rapid.IntRange(1, 40), rapid.SampledFrom([]int{7, 16, 64, 512})).Draw(rt, "chunk")}
		x.Tree = verifnet.Tree{Base: "payload"}
		x.Streams = rapid.IntRange(1, 4).Draw(rt, "streams")
		x.Conns = 1
		x.SendResume, x.RecvResume = true, true
		x.NoRootDir = rapid.IntRange(0, 3).Draw(rt, "rootdir") != 0
		x.Mode = "paths"
		x.QUICVis = rapid.Bool().Draw(rt, "quicvis")
		x.HashAlg = rapid.SampledFrom([]string{"", "crc32c", "xxhash64", "none"}).Draw(rt, "hash")

		nfiles := rapid.IntRange(1, 4).Draw(rt, "nfiles")
		var nodes []srcNode
		for i := 0; i < nfiles; i++ {
			rel := fmt.Sprintf("f%d", i)
			if rapid.IntRange(0, 2).Draw(rt, fmt.Sprintf("sub%d", i)) == 1 {
				rel = "d/" + rel
			}
			nodes = append(nodes, srcNode{
				Rel: rel, Link: rapid.SampledFrom([]bool{true, true, false}).Draw(rt, fmt.Sprintf("link%d", i)), Blob: fmt.Sprintf("b%d", i),
				Size: verifnet.GenSize(rt, x.Chunk, 10, fmt.Sprintf("size%d", i)), Seed: rapid.Uint64().Draw(rt, fmt.Sprintf("seed%d", i)),
			})
		}
		nchanges := rapid.IntRange(1, 3).Draw(rt, "nchanges")
		var changes []srcChange
		for i := 0; i < nchanges; i++ {
			changes = append(changes, srcChange{
				Kind: rapid.SampledFrom([]string{"rewrite-same-size", "rewrite-same-size", "rewrite-same-size", "rewrite-other-size", "retarget", "file-to-link", "link-to-file"}).Draw(rt, fmt.Sprintf("ckind%d", i)),
				Idx:  rapid.IntRange(0, nfiles-1).Draw(rt, fmt.Sprintf("cidx%d", i)),
			})
		}
		cutAt := frac(rt, "cut") * 1.6 // > 1: the first attempt runs to its end
		newSeeds := rapid.SliceOfN(rapid.Uint64(), nchanges, nchanges).Draw(rt, "newseeds")
		newSizes := make([]int, nchanges)
		for i := range newSizes {
			newSizes[i] = verifnet.GenSize(rt, x.Chunk, 10, fmt.Sprintf("newsize%d", i))
		}

		dir := caseDir("c06src")
		defer os.RemoveAll(dir)
		src, out := filepath.Join(dir, "src"), filepath.Join(dir, "out")
		os.MkdirAll(out, 0755)
		os.MkdirAll(filepath.Join(src, "payload"), 0755)
		for _, n := range nodes {
			if err := srcPlace(src, n); err != nil {
				rt.Fatalf("place: %v", err)
			}
		}
		root := filepath.Join(src, "payload")

		// ---- first attempt -----------------------------------------------------------
		p1, err := prepareAt(x, root, out)
		if err != nil {
			rec.Class("not-prepared")
			return
		}
		var total int64
		for _, n := range nodes {
			total += int64(n.Size)
		}
		var fault *verifkit.Fault
		if cutAt < 1 && total > 0 {
			fault = &verifkit.Fault{Kind: verifkit.FaultAbrupt, Ordinal: 1, Dir: verifkit.Dir(0), Offset: int64(cutAt * float64(total) / float64(p1.total+1))}
		}
		pair, err := p1.newPair(func(int) verifkit.MemOptions {
			return verifkit.MemOptions{QUICVisibility: x.QUICVis, Fault: fault}
		})
		if err != nil {
			rt.Fatalf("pair: %v", err)
		}
		res1 := p1.run(pair, 30*time.Second, 5*time.Second)
		pair.Close()
		if res1.Hung {
			rec.Class("not-judged/first-attempt-hung")
			return
		}
		first := "first-attempt/failed"
		if res1.BothOK() {
			first = "first-attempt/complete"
			if diff := verifnet.DiffDigests(srcExpected(nodes, p1.prefix), mustDigest(out)); diff != "" {
				// not this unit's subject (C01), and the history has no defined start: leave it
				rec.Class("not-judged/first-attempt-wrong-tree")
				return
			}
		}
		metaBefore := countSidecars(out)

		// ---- the source changes ------------------------------------------------------
		var descs []string
		touched := map[int]bool{}
		for i, c := range changes {
			n := &nodes[c.Idx]
			old := *n
			n.Gen += 1 + i
			n.Seed = newSeeds[i]
			switch c.Kind {
			case "rewrite-same-size":
			case "rewrite-other-size":
				n.Size = newSizes[i]
			case "retarget":
				if !n.Link {
					n.Link = true
				}
				n.Blob = fmt.Sprintf("%s-r%d", n.Blob, i)
			case "file-to-link":
				n.Link = true
			case "link-to-file":
				n.Link = false
			}
			if n.Seed == old.Seed && n.Size == old.Size {
				n.Seed++
			}
			if err := srcPlace(src, *n); err != nil {
				rt.Fatalf("change: %v", err)
			}
			touched[c.Idx] = true
			descs = append(descs, fmt.Sprintf("%s %s (link %v->%v, size %d->%d, mtime +%dh)", c.Kind, n.Rel, old.Link, n.Link, old.Size, n.Size, n.Gen-old.Gen))
		}

		// ---- second attempt ----------------------------------------------------------
		p2, err := prepareAt(x, root, out)
		if err != nil {
			rec.Class("not-prepared")
			return
		}
		pair2, err := p2.newPair(nil)
		if err != nil {
			rt.Fatalf("pair: %v", err)
		}
		res2 := p2.run(pair2, 30*time.Second, 5*time.Second)
		pair2.Close()
		rec.Eval()
		rec.Class(first)
		for _, c := range changes {
			rec.Class("change/" + c.Kind)
		}
		detail := fmt.Sprintf("changes: %s | first attempt: %s (cut=%v, %d metadata files left) | case: %s files=%+v | second attempt: %s",
			strings.Join(descs, "; "), first, fault != nil, metaBefore, x, nodes, res2)
		switch {
		case res2.Hung:
			rec.Class("not-judged/second-attempt-hung") // completion is C03's subject
		case res2.BothOK():
			if diff := verifnet.DiffDigests(srcExpected(nodes, p2.prefix), mustDigest(out)); diff != "" {
				if rec.Fail(rt, "resume-skipped-data:source-changed", "both sides reported success but "+diff+" | "+detail) {
					return
				}
			}
			rec.Class("outcome/identical")
		default:
			rec.Class("outcome/failed-loudly")
		}
		// non-trivial: metadata of the first attempt existed, and a file of >= 2 chunks was changed with its length kept
		for i := range nodes {
			if touched[i] && metaBefore > 0 && nodes[i].Size > x.Chunk {
				kinds := []string{}
				for _, c := range changes {
					kinds = append(kinds, fmt.Sprintf("%s@%d", c.Kind, c.Idx))
				}
				rec.Class("changed-file-with-metadata-from-first-attempt")
				rec.NonTrivial(fmt.Sprintf("%v|%s|%d/%d/%v/%s|%+v", kinds, first, x.Chunk, x.Streams, x.NoRootDir, x.HashAlg, nodes))
				break
			}
		}
		if rec.SampleWanted() {
			rec.Sample(map[string]any{"changes": descs, "first_attempt": first, "case": x.String(), "files": fmt.Sprintf("%+v", nodes), "outcome": strings.TrimSpace(res2.String())})
		}
	})
}

func mustDigest(dir string) []verifnet.Entry {
	d, err := verifnet.Digest(dir)
	if err != nil {
		return []verifnet.Entry{{Rel: "<unreadable: " + err.Error() + ">"}}
	}
	return d
}

// countSidecars counts resume-metadata files anywhere below dir.
func countSidecars(dir string) int {
	n := 0
	filepath.Walk(dir, func(p string, info os.FileInfo, err error) error {
		if err == nil && !info.IsDir() && strings.HasSuffix(p, ".sbxmap") {
			n++
		}
		return nil
	})
	return n
}
