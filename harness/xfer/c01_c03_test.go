package verifxfer

import (
	"fmt"
	"os"
	"path/filepath"
	"strings"
	"sync"
	"testing"
	"time"

	"github.com/sheerbytes/sheerbytes/internal/verifkit"
	"github.com/sheerbytes/sheerbytes/internal/verifnet"
	"pgregory.net/rapid"
)

// genCase draws a complete transfer configuration.
func genCase(t *rapid.T, o verifnet.GenOpts, allowLegacy bool, maxPerturb int) xcase {
	x := xcase{Chunk: genChunk(t)}
	if x.Chunk >= 4096 && o.MaxChunks == 0 {
		o.MaxChunks = 6
	}
	x.Tree = verifnet.GenTree(t, x.Chunk, o)
	x.Streams = rapid.IntRange(1, 8).Draw(t, "streams")
	x.Conns = rapid.SampledFrom([]int{1, 1, 1, 2, 3, 4}).Draw(t, "conns")
	x.SendResume = rapid.Bool().Draw(t, "send_resume")
	x.RecvResume = rapid.Bool().Draw(t, "recv_resume")
	x.NoRootDir = rapid.Bool().Draw(t, "no_root_dir")
	x.Mode = rapid.SampledFrom([]string{"scan", "paths"}).Draw(t, "mode")
	x.QUICVis = rapid.Bool().Draw(t, "quic_visibility")
	x.Window = rapid.SampledFrom([]int{0, 0, 0, 64, 1000, 70000}).Draw(t, "window")
	x.Segment = rapid.SampledFrom([]int{0, 0, 1, 5, 1200}).Draw(t, "segment")
	if allowLegacy && rapid.IntRange(0, 5).Draw(t, "legacy") == 0 {
		x.Legacy = true
		x.Conns = 1
		x.Perturb = nil
	}
	x.Perturb = genPerturb(t, maxPerturb)
	x.HashAlg = rapid.SampledFrom([]string{"", "crc32c", "xxhash64", "none"}).Draw(t, "hash")
	x.SlotFrac = rapid.SampledFrom([]float64{0, 0, 0, 0.25, 0.5, 0.75, 1}).Draw(t, "small_slot_frac")
	genThresholds(t, &x)
	return x
}

// ---- C01: success implies an identical tree ----------------------------------------

func TestVerifC01Mem(t *testing.T) {
	rec := verifkit.NewRecorder("C01", "mem")
	defer rec.Flush()
	rapid.Check(t, func(rt *rapid.T) {
		x := genCase(rt, verifnet.GenOpts{UnusualNames: true, DotDotNames: true, InvalidUTF8: true}, true, 3)
		dir := caseDir("c01")
		defer os.RemoveAll(dir)
		p, err := prepare(x, dir)
		if err != nil {
			rec.Class("prepare-failed")
			rec.Note("prepare failed: %v", err)
			return
		}
		stale := 0
		if v := rapid.IntRange(0, 9).Draw(rt, "stale_output"); v == 3 || v == 6 {
			// the output directory already holds other versions of some files (an older copy
			// of the tree, without resume metadata): longer, shorter, or non-empty where the
			// source is empty - success must still mean "same length, same bytes"
			for i, it := range p.fileItems() {
				if !rapid.Bool().Draw(rt, fmt.Sprintf("stale%d", i)) {
					continue
				}
				n := rapid.IntRange(0, 2*int(it.Size)+5).Draw(rt, fmt.Sprintf("stale_len%d", i))
				base := p.baseDirOf()
				if x.Legacy { // the single-stream receiver always writes below the manifest root
					base = filepath.Join(p.out, p.m.Root)
				}
				fp := filepath.Join(base, filepath.FromSlash(it.RelPath))
				if os.MkdirAll(filepath.Dir(fp), 0755) == nil && os.WriteFile(fp, verifkit.Content(uint64(i)+77, n), 0644) == nil {
					stale++
				}
			}
		}
		pair, err := p.newPair(nil)
		if err != nil {
			rt.Fatalf("pair: %v", err)
		}
		defer pair.Close()
		remove := installPerturb(x.Perturb, nil)
		res := p.run(pair, 20*time.Second, 1500*time.Millisecond)
		remove()
		rec.Eval()
		if stale > 0 {
			rec.Class("stale-files-at-destination")
		}
		if x.Legacy {
			rec.Class("legacy-protocol")
		}
		if x.QUICVis {
			rec.Class("quic-visibility")
		}
		if x.Conns > 1 {
			rec.Class("multi-conn")
		}
		if dd, bad := nameClass(x.Tree); dd || bad {
			if dd {
				rec.Class("name-contains-dotdot")
			}
			if bad {
				rec.Class("name-not-valid-utf8")
			}
		}
		if !res.BothOK() {
			// C01 says nothing when a side reports failure (C03 owns completion)
			rec.Class("not-both-successful")
			if res.Hung {
				rec.Class("hung:" + res.HangKind)
			}
			return
		}
		rec.Class("both-successful")
		if diff := p.checkTree(); diff != "" {
			rec.Fail(rt, "tree-differs-after-success", fmt.Sprintf("both sides reported success but the output differs: %s | case: %s", diff, x))
			return
		}
		for _, n := range x.Tree.Nodes {
			switch {
			case n.Dir:
				rec.Class("has-dir")
			case n.Size == 0:
				rec.Class("has-zero-length-file")
			case n.Size%x.Chunk == 0 || n.Size%x.Chunk == 1 || n.Size%x.Chunk == x.Chunk-1:
				rec.Class("has-boundary-size-file")
			}
		}
		if x.SendResume && x.RecvResume {
			rec.Class("resume-on")
		}
		if maxChunksOf(x) >= 2 && (p.total >= 2 || x.Conns >= 2) {
			rec.NonTrivial(x.fingerprint())
		}
		if rec.SampleWanted() {
			rec.Sample(x.String())
		}
	})
}

// TestVerifC01KnownNames is the regression case of a repaired finding: names that are not
// valid UTF-8 were altered by the JSON manifest while both sides reported success.
func TestVerifC01KnownNames(t *testing.T) {
	rec := verifkit.NewRecorder("C01", "known-names")
	defer rec.Flush()
	for i, name := range []string{"bad\xffname", "\xfe\xfd"} {
		x := xcase{Tree: verifnet.Tree{Base: "src", Nodes: []verifnet.Node{{Rel: name, Dir: true}, {Rel: "ok.bin", Size: 9, Seed: 5}}}, Chunk: 4, Streams: 1 + i, Conns: 1,
			SendResume: true, RecvResume: true, NoRootDir: i == 0, Mode: "scan"}
		dir := caseDir("c01k")
		p, err := prepare(x, dir)
		if err != nil {
			t.Fatalf("prepare: %v", err)
		}
		pair, _ := p.newPair(nil)
		res := p.run(pair, 20*time.Second, 3*time.Second)
		pair.Close()
		rec.Eval()
		if res.BothOK() {
			if diff := p.checkTree(); diff != "" {
				rec.Fail(t, "invalid-utf8-name-altered", fmt.Sprintf("both sides reported success but %s | case: %s", diff, x))
			} else {
				rec.NonTrivial(x.fingerprint())
			}
		}
		os.RemoveAll(dir)
	}
}

// TestVerifC01Prior: the output directory holds the state of an earlier, interrupted attempt
// - possibly made with another chunk size (also one under which a file keeps its chunk
// count), with holes below the highest received chunk, as several streams leave them. If
// both sides report success the tree must be identical.
func TestVerifC01Prior(t *testing.T) {
	rec := verifkit.NewRecorder("C01", "prior")
	defer rec.Flush()
	rapid.Check(t, func(rt *rapid.T) {
		x := xcase{Chunk: rapid.OneOf(rapid.IntRange(2, 64), rapid.SampledFrom([]int{16, 100, 400})).Draw(rt, "chunk")}
		x.Tree = verifnet.GenTree(rt, x.Chunk, verifnet.GenOpts{MaxFiles: 4, MinFiles: 1, MaxChunks: 10})
		x.Streams = rapid.IntRange(1, 6).Draw(rt, "streams")
		x.Conns = rapid.SampledFrom([]int{1, 1, 2, 3}).Draw(rt, "conns")
		x.SendResume, x.RecvResume = true, true
		x.NoRootDir = rapid.IntRange(0, 3).Draw(rt, "rootdir") != 0
		x.Mode = rapid.SampledFrom([]string{"scan", "paths"}).Draw(rt, "mode")
		x.QUICVis = rapid.Bool().Draw(rt, "quicvis")
		dir := caseDir("c01p")
		defer os.RemoveAll(dir)
		p, err := prepare(x, dir)
		if err != nil {
			rec.Class("not-prepared")
			return
		}
		// chunk size of the earlier attempt
		prior := x.Chunk
		mode := rapid.SampledFrom([]string{"same", "same-count", "same-count", "other"}).Draw(rt, "prior_chunk")
		switch mode {
		case "same-count":
		search:
			for d := 40; d >= 1; d-- {
				for _, c2 := range []int{x.Chunk + d, x.Chunk - d} {
					if c2 < 1 {
						continue
					}
					for _, it := range p.fileItems() {
						n1, n2 := (int(it.Size)+x.Chunk-1)/x.Chunk, (int(it.Size)+c2-1)/c2
						if n1 >= 2 && n1 == n2 {
							prior = c2
							break search
						}
					}
				}
			}
		case "other":
			prior = rapid.IntRange(1, 2*x.Chunk).Draw(rt, "prior_chunk_value")
		}
		ps := priorState{Marked: map[string][]int{}}
		holes := false
		for i, it := range p.fileItems() {
			total := (int(it.Size) + prior - 1) / prior
			if total == 0 {
				continue
			}
			bits := rapid.SliceOfN(rapid.Bool(), total, total).Draw(rt, fmt.Sprintf("marked%d", i))
			var marked []int
			for j, b := range bits {
				if b {
					marked = append(marked, j)
				}
			}
			if len(marked) > 0 {
				ps.Marked[it.RelPath] = marked
				if marked[len(marked)-1]+1 > len(marked) {
					holes = true
				}
			}
		}
		if err := p.installPriorChunk(ps, 0, prior); err != nil {
			rt.Fatalf("install prior: %v", err)
		}
		pair, err := p.newPair(nil)
		if err != nil {
			rt.Fatalf("pair: %v", err)
		}
		res := p.run(pair, 20*time.Second, 3*time.Second)
		pair.Close()
		rec.Eval()
		rec.Class("prior-chunk-size/" + mode)
		if holes {
			rec.Class("prior-marks-with-holes")
		}
		if !res.BothOK() {
			rec.Class("not-both-ok")
			return
		}
		if diff := p.checkTree(); diff != "" {
			rec.Fail(rt, "tree-differs-after-success", fmt.Sprintf("%s | earlier attempt: chunk size %d, marks %v | case: %s", diff, prior, ps.Marked, x))
			return
		}
		if len(ps.Marked) > 0 {
			rec.NonTrivial(fmt.Sprintf("%d|%v|%s", prior, ps.Marked, x.fingerprint()))
		}
		if rec.SampleWanted() {
			rec.Sample(map[string]any{"case": x.String(), "prior_chunk_size": prior, "prior_marks": fmt.Sprint(ps.Marked)})
		}
	})
}

// ---- C03: every transfer between healthy peers completes ---------------------------

// c03Outcome runs a case and returns a failure signature ("" = completed on both sides).
func c03Outcome(x xcase, label string, forceOvertake bool) (sig, detail string, p *prepared) {
	dir := caseDir(label)
	defer os.RemoveAll(dir)
	p, err := prepare(x, dir)
	if err != nil {
		dd, bad := nameClass(x.Tree)
		if bad || dd {
			return "prepare", err.Error(), nil
		}
		return "prepare", err.Error(), nil
	}
	pair, err := p.newPair(nil)
	if err != nil {
		return "prepare", err.Error(), nil
	}
	defer pair.Close()
	var extra func(name, detail string, n int64)
	if forceOvertake {
		// hold a data-stream reader that found no state for its chunk until the FileBegin
		// of a file has been registered: the chunk legitimately overtook its FileBegin
		var mu sync.Mutex
		reg := 0
		cond := sync.NewCond(&mu)
		extra = func(name, detail string, n int64) {
			switch name {
			case "recv.filebegin.registered":
				mu.Lock()
				reg++
				cond.Broadcast()
				mu.Unlock()
			case "recv.chunk.unknownfile":
				mu.Lock()
				start := reg
				deadline := time.Now().Add(300 * time.Millisecond)
				timer := time.AfterFunc(300*time.Millisecond, func() { mu.Lock(); cond.Broadcast(); mu.Unlock() })
				for reg == start && time.Now().Before(deadline) {
					cond.Wait()
				}
				timer.Stop()
				mu.Unlock()
			}
		}
	}
	remove := installPerturb(x.Perturb, extra)
	res := p.run(pair, 30*time.Second, 5*time.Second)
	remove()
	dd, bad := nameClass(x.Tree)
	if res.BothOK() {
		if diff := p.checkTree(); diff != "" {
			if bad {
				return "legal-name-rejected:invalid-utf8", "completed, but a name that is not valid UTF-8 was altered: " + diff, p
			}
			return "completed-with-wrong-tree", diff, p
		}
		return "", "", p
	}
	if res.Hung {
		kind := res.HangKind
		if kind == "recv-reader-waiting-for-unknown-file" {
			// output directories of this unit are fresh: no earlier run, so no late duplicate
			kind = "recv-reader-parked-on-fresh-output"
		}
		return kind, res.String() + "\n" + verifnet.TrimDump(res.Dump), p
	}
	msg := fmt.Sprint(res.SendErr, " / ", res.RecvErr)
	switch {
	case dd && strings.Contains(msg, "invalid relative path"):
		return "legal-name-rejected:contains-dotdot", msg, p
	case bad && (strings.Contains(msg, "manifest mismatch") || strings.Contains(msg, "unexpected file")):
		return "legal-name-rejected:invalid-utf8", msg, p
	}
	return "failed:" + errClass(msg), res.String(), p
}

func errClass(msg string) string {
	for _, k := range []string{"manifest mismatch", "invalid relative path", "crc32 mismatch", "Application error", "deadline", "context canceled", "file key mismatch", "duplicate file begin", "unknown file", "timeout"} {
		if strings.Contains(msg, k) {
			return strings.ReplaceAll(k, " ", "-")
		}
	}
	return "other"
}

func c03NonTrivial(x xcase, total int) bool {
	zero := false
	for _, f := range x.Tree.Files() {
		if f.Size == 0 {
			zero = true
		}
	}
	return total > totalChunksOf(x) || zero || x.Conns > 1 || len(x.Tree.Files()) == 0
}

// gridTree builds the deterministic tree of a grid cell.
func gridTree(files, chunks, c int) verifnet.Tree {
	tr := verifnet.Tree{Base: "grid"}
	for i := 0; i < files; i++ {
		size := chunks * c
		if chunks > 0 && i%2 == 1 {
			size -= c / 2 // last chunk partial for every other file
		}
		tr.Nodes = append(tr.Nodes, verifnet.Node{Rel: fmt.Sprintf("f%02d.bin", i), Size: size, Seed: uint64(1000*files + 10*chunks + i)})
	}
	return tr
}

func TestVerifC03Grid(t *testing.T) {
	rec := verifkit.NewRecorder("C03", "grid")
	defer rec.Flush()
	sh, nsh := verifkit.Shard()
	filesSet := []int{0, 1, 2, 3, 5}
	chunkSet := []int{0, 1, 2, 3, 7}
	streamSet := []int{1, 2, 3, 4, 5, 6, 7, 8}
	connSet := []int{1, 2, 4}
	if !verifkit.Thorough() {
		streamSet = []int{1, 2, 3, 4, 8}
		connSet = []int{1, 2}
	}
	k := 0
	for _, files := range filesSet {
		for _, chunks := range chunkSet {
			for _, streams := range streamSet {
				for _, conns := range connSet {
					for _, resume := range []bool{false, true} {
						for _, vis := range []bool{true, false} {
							if !vis && !(verifkit.Thorough() || (streams == 2 && conns == 1)) {
								continue
							}
							k++
							if k%nsh != sh {
								continue
							}
							x := xcase{Tree: gridTree(files, chunks, 64), Chunk: 64, Streams: streams, Conns: conns, SendResume: true, RecvResume: resume,
								NoRootDir: true, Mode: "paths", QUICVis: vis}
							sig, detail, p := c03Outcome(x, "c03g", false)
							if sig == "prepare" {
								t.Fatalf("grid cell could not be prepared: %s", detail)
							}
							rec.Eval()
							rec.Class(fmt.Sprintf("grid/vis=%v", vis))
							if sig != "" {
								rec.Fail(t, sig, fmt.Sprintf("grid cell files=%d chunks/file=%d streams=%d conns=%d recv-resume=%v quic-visibility=%v: %s", files, chunks, streams, conns, resume, vis, detail))
								continue
							}
							if c03NonTrivial(x, p.total) {
								rec.NonTrivial(fmt.Sprintf("%d/%d/%d/%d/%v/%v", files, chunks, streams, conns, resume, vis))
							}
							if rec.SampleWanted() && k%97 == 0 {
								rec.Sample(fmt.Sprintf("grid cell files=%d chunks/file=%d streams=%d conns=%d resume=%v quicvis=%v: completed", files, chunks, streams, conns, resume, vis))
							}
						}
					}
				}
			}
		}
	}
	rec.Extra("grid", fmt.Sprintf("files %v x chunks/file %v x streams %v x conns %v x recv-resume {off,on} (QUIC stream visibility on; plain visibility for a subset)", filesSet, chunkSet, streamSet, connSet))
	rec.SetExhaustive(true)
}

func TestVerifC03Random(t *testing.T) {
	rec := verifkit.NewRecorder("C03", "random")
	defer rec.Flush()
	rapid.Check(t, func(rt *rapid.T) {
		o := verifnet.GenOpts{UnusualNames: true, DotDotNames: !rec.IsKnown("legal-name-rejected:contains-dotdot"),
			InvalidUTF8: !rec.IsKnown("legal-name-rejected:invalid-utf8"), MaxChunks: 12}
		if rapid.IntRange(0, 3).Draw(rt, "small_tree") == 0 {
			o.MaxFiles = 3
			o.MaxChunks = 2
		}
		x := genCase(rt, o, false, 3)
		x.HashAlg = ""
		overtake := rapid.IntRange(0, 2).Draw(rt, "force_overtake") == 0
		sig, detail, p := c03Outcome(x, "c03r", overtake)
		if sig == "prepare" {
			rec.Class("prepare-failed")
			return
		}
		rec.Eval()
		if overtake {
			rec.Class("overtake-forced")
		}
		if sig != "" {
			rec.Fail(rt, sig, "case: "+x.String()+" | "+detail)
			return
		}
		if c03NonTrivial(x, p.total) {
			rec.NonTrivial(x.fingerprint())
		}
		if p.total > totalChunksOf(x) {
			rec.Class("streams>chunks")
		}
		if len(x.Tree.Files()) == 0 {
			rec.Class("no-files")
		}
		if x.Conns > 1 {
			rec.Class("multi-conn")
		}
		if rec.SampleWanted() {
			rec.Sample(x.String())
		}
	})
	// the excluded name classes are exercised once each so that a known finding is
	// re-confirmed (and reported) on every run
	for _, kc := range []struct {
		key  string
		name string
	}{{"legal-name-rejected:contains-dotdot", "notes..txt"}, {"legal-name-rejected:invalid-utf8", "bad\xffname"}} {
		if !rec.IsKnown(kc.key) {
			continue
		}
		x := xcase{Tree: verifnet.Tree{Base: "src", Nodes: []verifnet.Node{{Rel: kc.name, Size: 10, Seed: 1}}}, Chunk: 4, Streams: 1, Conns: 1,
			SendResume: true, RecvResume: true, NoRootDir: true, Mode: "paths"}
		sig, detail, _ := c03Outcome(x, "c03k", false)
		rec.Eval()
		if sig == kc.key {
			rec.KnownHit(sig, detail)
		} else if sig != "" {
			rec.Fail(t, sig, detail+" | case: "+x.String())
		}
	}
}

// TestVerifC03Resumed: transfers into an output directory that holds the state of an earlier
// (partial or complete) run must complete as well.
func TestVerifC03Resumed(t *testing.T) {
	rec := verifkit.NewRecorder("C03", "resumed")
	defer rec.Flush()
	rapid.Check(t, func(rt *rapid.T) {
		x := xcase{Chunk: rapid.OneOf(rapid.IntRange(1, 40), rapid.SampledFrom([]int{7, 16, 64, 512})).Draw(rt, "chunk")}
		// "late report": the receiver's resume report reaches the sender only after the sender's
		// grace period (hook-delayed by 450 ms per file), and the highest chunk the earlier run
		// recorded is damaged on disk, so that the sender's verification asks for a re-send while
		// (or after) the file has already been sent in full - duplicate chunks then arrive late
		late := rapid.IntRange(0, 59).Draw(rt, "late_report") == 37 // (rapid favours the ends of a range: a middle value keeps the share near 1/60)
		maxFiles := 4
		if late {
			maxFiles = 2
		}
		x.Tree = verifnet.GenTree(rt, x.Chunk, verifnet.GenOpts{MaxFiles: maxFiles, MinFiles: 1, MaxChunks: 10})
		x.Streams = rapid.IntRange(1, 6).Draw(rt, "streams")
		x.Conns = rapid.SampledFrom([]int{1, 1, 2}).Draw(rt, "conns")
		x.SendResume, x.RecvResume = true, true
		x.NoRootDir = rapid.IntRange(0, 3).Draw(rt, "rootdir") != 0
		x.Mode = rapid.SampledFrom([]string{"scan", "paths"}).Draw(rt, "mode")
		x.QUICVis = rapid.Bool().Draw(rt, "quicvis")
		x.Perturb = genPerturb(rt, 2)
		dir := caseDir("c03p")
		defer os.RemoveAll(dir)
		p, err := prepare(x, dir)
		if err != nil {
			rec.Class("not-prepared")
			return
		}
		ps := priorState{Marked: map[string][]int{}}
		full, partial := false, false
		for i, it := range p.fileItems() {
			total := (int(it.Size) + x.Chunk - 1) / x.Chunk
			if total == 0 {
				continue
			}
			mode := rapid.IntRange(0, 3).Draw(rt, fmt.Sprintf("prior%d", i)) // 0 none, 1 all, 2-3 subset
			if late && i == 0 && mode != 1 && rapid.Bool().Draw(rt, "late_all_marked") {
				mode = 1 // the re-send path of a completely recorded file
			}
			var marked []int
			switch mode {
			case 1:
				for j := 0; j < total; j++ {
					marked = append(marked, j)
				}
				full = true
			case 2, 3:
				bits := rapid.SliceOfN(rapid.Bool(), total, total).Draw(rt, fmt.Sprintf("marked%d", i))
				for j, b := range bits {
					if b {
						marked = append(marked, j)
					}
				}
				if len(marked) > 0 && len(marked) < total {
					partial = true
				}
			}
			if len(marked) > 0 {
				ps.Marked[it.RelPath] = marked
			}
		}
		if err := p.installPrior(ps, 0); err != nil {
			rt.Fatalf("install prior: %v", err)
		}
		if late {
			damaged := 0
			for _, it := range p.fileItems() {
				marked := ps.Marked[it.RelPath]
				if len(marked) == 0 {
					continue
				}
				hi := marked[len(marked)-1]
				fp := filepath.Join(p.baseDirOf(), filepath.FromSlash(it.RelPath))
				if data, err := os.ReadFile(fp); err == nil && hi*x.Chunk < len(data) {
					data[hi*x.Chunk] ^= 0x5a
					os.WriteFile(fp, data, 0644)
					damaged++
				}
			}
			if damaged > 0 {
				rec.Class("late-report-with-damaged-highest-chunk")
			}
		}
		var optsFor func(int) verifkit.MemOptions
		if late {
			// the receiver's records on the control stream spend 450-600 ms in flight (the first one,
			// its resume report, longer than the sender's grace period) without blocking the receiver
			optsFor = func(i int) verifkit.MemOptions {
				o := verifkit.MemOptions{QUICVisibility: x.QUICVis, Window: x.Window, Segment: x.Segment}
				if i == 0 {
					o.Latency = func(ordinal int, d verifkit.Dir, off int64) time.Duration {
						if ordinal == 0 && d == verifkit.BtoA {
							if off == 0 {
								return 450 * time.Millisecond
							}
							return 600 * time.Millisecond // confirmations are slow as well
						}
						return 0
					}
				}
				return o
			}
		}
		pair, err := p.newPair(optsFor)
		if err != nil {
			rt.Fatalf("pair: %v", err)
		}
		remove := installPerturb(x.Perturb, nil)
		t0 := time.Now()
		res := p.run(pair, 30*time.Second, 5*time.Second)
		remove()
		pair.Close()
		rec.Eval()
		if d := time.Since(t0); d > 1500*time.Millisecond {
			rec.Note("slow resumed case (%.1fs, late=%v): %s", d.Seconds(), late, x)
		}
		detail := fmt.Sprintf("prior marks: %v | case: %s | %s", ps.Marked, x, res)
		switch {
		case res.Hung:
			rec.Fail(rt, "resumed:"+res.HangKind, detail+"\n"+verifnet.TrimDump(res.Dump))
			return
		case !res.BothOK():
			rec.Fail(rt, "resumed-failed:"+errClass(fmt.Sprint(res.SendErr, res.RecvErr)), detail)
			return
		}
		if diff := p.checkTree(); diff != "" {
			rec.Fail(rt, "resumed-completed-with-wrong-tree", diff+" | "+detail)
			return
		}
		if full {
			rec.Class("file-complete-before")
		}
		if partial {
			rec.Class("file-partial-before")
		}
		if full || partial {
			rec.NonTrivial(fmt.Sprint(ps.Marked) + x.fingerprint())
		}
		if rec.SampleWanted() {
			rec.Sample(detail)
		}
	})
}
