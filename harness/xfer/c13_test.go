package verifxfer

import (
	"fmt"
	"os"
	"path/filepath"
	"reflect"
	"sort"
	"strings"
	"syscall"
	"testing"
	"time"

	"github.com/sheerbytes/sheerbytes/internal/app"
	"github.com/sheerbytes/sheerbytes/internal/verifkit"
	"github.com/sheerbytes/sheerbytes/pkg/manifest"
	"pgregory.net/rapid"
)

// ---- C13: the manifest describes exactly what will be read ---------------------------

type c13Entry struct {
	Rel    string // relative to its parent directory
	Kind   string // file dir symfile symdir symdangling symloop fifo
	Size   int
	Target string
}

type c13Parent struct {
	Grand   string // grand-parent directory name (distinct), so that equal base names can occur
	Name    string
	Entries []c13Entry
	IsFile  bool // the "parent" is a single file argument
	Size    int
}

type c13Arg struct {
	Parent   int
	Sub      string // "" = the parent itself, else a path inside it
	Spelling string // abs | trailing-slash | dot | relative-dotdot | symlink
}

type c13Case struct {
	Parents []c13Parent
	Args    []c13Arg
}

func (c c13Case) String() string {
	var ps []string
	for _, p := range c.Parents {
		var es []string
		for _, e := range p.Entries {
			es = append(es, fmt.Sprintf("%s:%s:%d", e.Rel, e.Kind, e.Size))
		}
		ps = append(ps, fmt.Sprintf("%s/%s{%s}", p.Grand, p.Name, strings.Join(es, " ")))
	}
	return fmt.Sprintf("parents=[%s] args=%+v", strings.Join(ps, " "), c.Args)
}

var c13Bases = []string{"x", "x", "y", "proj", "1_x", "2_x", "1_1_x", "data", "a b", "é"}
var c13Names = []string{"f", "g", "data.csv", "data 2", "data-old", "1_x", "x", ".hid", "-dash", "ü", "a b", "z.bin", "data"}

func genC13(t *rapid.T) c13Case {
	var c c13Case
	np := rapid.IntRange(1, 4).Draw(t, "parents")
	for i := 0; i < np; i++ {
		p := c13Parent{Grand: fmt.Sprintf("g%d", i), Name: rapid.SampledFrom(c13Bases).Draw(t, fmt.Sprintf("base%d", i))}
		if rapid.IntRange(0, 4).Draw(t, fmt.Sprintf("isfile%d", i)) == 0 {
			p.IsFile = true
			p.Size = rapid.IntRange(0, 50).Draw(t, fmt.Sprintf("psize%d", i))
			c.Parents = append(c.Parents, p)
			continue
		}
		ne := rapid.IntRange(0, 7).Draw(t, fmt.Sprintf("entries%d", i))
		used := map[string]bool{}
		dirs := []string{""}
		for j := 0; j < ne; j++ {
			name := rapid.SampledFrom(c13Names).Draw(t, fmt.Sprintf("name%d_%d", i, j))
			dir := rapid.SampledFrom(dirs).Draw(t, fmt.Sprintf("dir%d_%d", i, j))
			rel := name
			if dir != "" {
				rel = dir + "/" + name
			}
			if used[rel] {
				continue
			}
			used[rel] = true
			kind := rapid.SampledFrom([]string{"file", "file", "file", "dir", "dir", "symfile", "symdir", "symdangling", "symloop", "fifo"}).Draw(t, fmt.Sprintf("kind%d_%d", i, j))
			e := c13Entry{Rel: rel, Kind: kind}
			switch kind {
			case "file":
				e.Size = rapid.IntRange(0, 60).Draw(t, fmt.Sprintf("size%d_%d", i, j))
			case "dir":
				if strings.Count(rel, "/") < 2 {
					dirs = append(dirs, rel)
				}
			case "symfile":
				e.Size = rapid.IntRange(0, 60).Draw(t, fmt.Sprintf("size%d_%d", i, j))
			}
			p.Entries = append(p.Entries, e)
		}
		c.Parents = append(c.Parents, p)
	}
	na := rapid.IntRange(1, 5).Draw(t, "nargs")
	for i := 0; i < na; i++ {
		a := c13Arg{Parent: rapid.IntRange(0, np-1).Draw(t, fmt.Sprintf("argp%d", i))}
		p := c.Parents[a.Parent]
		if !p.IsFile && len(p.Entries) > 0 && rapid.IntRange(0, 3).Draw(t, fmt.Sprintf("argsub%d", i)) == 0 {
			e := p.Entries[rapid.IntRange(0, len(p.Entries)-1).Draw(t, fmt.Sprintf("argsube%d", i))]
			if e.Kind == "file" || e.Kind == "dir" {
				a.Sub = e.Rel
			}
		}
		a.Spelling = rapid.SampledFrom([]string{"abs", "abs", "abs", "trailing-slash", "dot", "relative-dotdot", "symlink"}).Draw(t, fmt.Sprintf("argsp%d", i))
		c.Args = append(c.Args, a)
	}
	return c
}

// c13Materialize builds the forest; returns the absolute path of each parent.
func c13Materialize(dir string, c c13Case) ([]string, error) {
	var roots []string
	os.WriteFile(filepath.Join(dir, "linktarget.txt"), []byte("outside-target-content"), 0644)
	os.MkdirAll(filepath.Join(dir, "linkdir", "inner"), 0755)
	for pi, p := range c.Parents {
		root := filepath.Join(dir, p.Grand, p.Name)
		roots = append(roots, root)
		if p.IsFile {
			if err := os.MkdirAll(filepath.Dir(root), 0755); err != nil {
				return nil, err
			}
			if err := os.WriteFile(root, verifkit.Content(uint64(pi)+1, p.Size), 0644); err != nil {
				return nil, err
			}
			continue
		}
		if err := os.MkdirAll(root, 0755); err != nil {
			return nil, err
		}
		for ei, e := range p.Entries {
			path := filepath.Join(root, filepath.FromSlash(e.Rel))
			os.MkdirAll(filepath.Dir(path), 0755)
			var err error
			switch e.Kind {
			case "file":
				err = os.WriteFile(path, verifkit.Content(uint64(pi*100+ei), e.Size), 0644)
			case "dir":
				err = os.MkdirAll(path, 0755)
			case "symfile":
				tgt := filepath.Join(dir, fmt.Sprintf("tgt-%d-%d", pi, ei))
				os.WriteFile(tgt, verifkit.Content(uint64(pi*100+ei), e.Size), 0644)
				err = os.Symlink(tgt, path)
			case "symdir":
				err = os.Symlink(filepath.Join(dir, "linkdir"), path)
			case "symdangling":
				err = os.Symlink(filepath.Join(dir, "does-not-exist"), path)
			case "symloop":
				err = os.Symlink(root, path)
			case "fifo":
				err = syscall.Mkfifo(path, 0644)
			}
			if err != nil {
				return nil, err
			}
		}
	}
	// every file and directory gets a modification time of its own (origin evidence for the check)
	n := int64(0)
	filepath.Walk(dir, func(path string, fi os.FileInfo, err error) error {
		if err == nil && (fi.Mode().IsRegular() || fi.IsDir()) {
			n++
			ts := time.Unix(1_600_000_000+n*7, 0)
			os.Chtimes(path, ts, ts)
		}
		return nil
	})
	return roots, nil
}

// refWalk lists (independently of the scanner) the directories and regular files beneath path (lstat, no link following).
type refItem struct {
	Rel   string
	IsDir bool
	Size  int64
	Abs   string
	Kind  string
}

func refWalk(path string) []refItem {
	var out []refItem
	var rec func(abs, rel string)
	rec = func(abs, rel string) {
		ents, err := os.ReadDir(abs)
		if err != nil {
			return
		}
		for _, en := range ents {
			a := filepath.Join(abs, en.Name())
			r := en.Name()
			if rel != "" {
				r = rel + "/" + en.Name()
			}
			fi, err := os.Lstat(a)
			if err != nil {
				continue
			}
			switch {
			case fi.IsDir():
				out = append(out, refItem{Rel: r, IsDir: true, Abs: a, Kind: "dir"})
				rec(a, r)
			case fi.Mode().IsRegular():
				out = append(out, refItem{Rel: r, Size: fi.Size(), Abs: a, Kind: "file"})
			default:
				out = append(out, refItem{Rel: r, Abs: a, Kind: "special:" + fi.Mode().Type().String()})
			}
		}
	}
	rec(path, "")
	return out
}

func TestVerifC13Scan(t *testing.T) {
	rec := verifkit.NewRecorder("C13", "scan")
	defer rec.Flush()
	origWD, _ := os.Getwd()
	defer os.Chdir(origWD)
	rapid.Check(t, func(rt *rapid.T) {
		c := genC13(rt)
		dir := caseDir("c13")
		defer os.RemoveAll(dir)
		defer os.Chdir(origWD)
		roots, err := c13Materialize(dir, c)
		if err != nil {
			rec.Class("materialize-failed")
			return
		}
		// one case in thirty-two: some files carry a modification time ahead of the clock (copied
		// from a machine in another time zone, clock skew); the second scan then runs in another
		// second of wall-clock time
		futureTimes := rapid.IntRange(0, 31).Draw(rt, "future_mtimes") == 7
		if futureTimes {
			k := int64(0)
			filepath.Walk(dir, func(path string, fi os.FileInfo, err error) error {
				if err == nil && fi.Mode().IsRegular() {
					k++
					if k%2 == 1 {
						ts := time.Now().Add(36*time.Hour + time.Duration(k)*7*time.Second).Truncate(time.Second)
						os.Chtimes(path, ts, ts)
					}
				}
				return nil
			})
			rec.Class("files-with-future-mtime")
		}
		// build the argument list
		var paths, absTargets []string
		classes := map[string]bool{}
		chdirDone := false
		for ai, a := range c.Args {
			abs := roots[a.Parent]
			if a.Sub != "" {
				abs = filepath.Join(abs, filepath.FromSlash(a.Sub))
				classes["overlap-candidate"] = true
			}
			spelled := abs
			switch a.Spelling {
			case "trailing-slash":
				if fi, err := os.Stat(abs); err == nil && fi.IsDir() {
					spelled = abs + "/"
				}
			case "dot":
				if fi, err := os.Stat(abs); err == nil && fi.IsDir() && !chdirDone {
					os.Chdir(abs)
					chdirDone = true
					spelled = "."
					classes["dot"] = true
				}
			case "relative-dotdot":
				spelled = filepath.Dir(abs) + "/../" + filepath.Base(filepath.Dir(abs)) + "/" + filepath.Base(abs)
				classes["dotdot-spelling"] = true
			case "symlink":
				ln := filepath.Join(dir, fmt.Sprintf("arglink%d", ai))
				if os.Symlink(abs, ln) == nil {
					spelled = ln
					classes["symlink-argument"] = true
				}
			}
			paths = append(paths, spelled)
			absTargets = append(absTargets, abs)
		}
		m, serr := manifest.ScanPaths(paths)
		resolver, rerr := app.VerifBuildPathResolver(paths)
		rec.Eval()
		desc := fmt.Sprintf("paths=%q | %s", paths, c)
		if rerr != nil {
			rec.Class("resolver-error")
			return
		}
		// Top-level names. Which name an argument gets is the tool's choice (the statement asks
		// for distinct paths that resolve back to their origin, not for a naming scheme), so
		// the assignment is recovered from the manifest: a top-level name belongs to the
		// argument its resolver entry points at, and every argument must get a name of its own.
		bases := make([]string, len(paths))
		count := map[string]int{}
		for i, p := range paths {
			ap, _ := filepath.Abs(p)
			bases[i] = filepath.Base(ap)
			count[bases[i]]++
		}
		for i := range bases {
			if count[bases[i]] > 1 {
				classes["base-name-collision"] = true
			}
			if (strings.HasPrefix(bases[i], "1_") || strings.HasPrefix(bases[i], "2_")) && count[bases[i][2:]] > 0 {
				classes["prefix-lookalike"] = true
			}
		}
		tops := make([]string, len(paths))
		for i := range tops {
			tops[i] = fmt.Sprintf("<no top-level name for argument %d>", i)
		}
		assigned := make([]bool, len(paths))
		seenTop := map[string]bool{}
		for _, it := range m.Items {
			top := strings.SplitN(it.RelPath, "/", 2)[0]
			if seenTop[top] {
				continue
			}
			seenTop[top] = true
			rst, rerr2 := os.Stat(resolver(top))
			if rerr2 != nil {
				continue // reported below as an item beneath no given path
			}
			// arguments naming the same file are interchangeable as origin; among them prefer the
			// one whose spelling the name is derived from (a link argument keeps the link's name)
			pick := -1
			for i := range paths {
				if assigned[i] {
					continue
				}
				if ast, err := os.Stat(absTargets[i]); err == nil && os.SameFile(rst, ast) {
					if pick < 0 {
						pick = i
					}
					if top == bases[i] || strings.HasSuffix(top, "_"+bases[i]) {
						pick = i
						break
					}
				}
			}
			if pick >= 0 {
				assigned[pick] = true
				tops[pick] = top
			}
		}
		// (2) distinct, slash separated, sorted
		seen := map[string]int{}
		for i, it := range m.Items {
			seen[it.RelPath]++
			if seen[it.RelPath] > 1 {
				if rec.Fail(rt, "duplicate-rel-path", fmt.Sprintf("rel_path %q listed more than once | %s", it.RelPath, desc)) {
					return
				}
			}
			if i > 0 && m.Items[i-1].RelPath > it.RelPath {
				rec.Fail(rt, "not-sorted", fmt.Sprintf("%q listed before %q | %s", m.Items[i-1].RelPath, it.RelPath, desc))
				return
			}
			if strings.Contains(it.RelPath, "\\") && !strings.Contains(desc, "\\") {
				rec.Fail(rt, "separator", "backslash in rel_path "+it.RelPath)
				return
			}
		}
		// (1) completeness per argument + (3) sizes + (4) resolves back to its origin
		expect := map[string]refItem{}
		symlinkArg := false
		for i := range paths {
			fi, err := os.Stat(absTargets[i])
			if err != nil {
				continue
			}
			if a := c.Args[i]; a.Spelling == "symlink" {
				symlinkArg = true
			}
			if !fi.IsDir() {
				expect[tops[i]] = refItem{Rel: tops[i], Size: fi.Size(), Abs: absTargets[i], Kind: "file"}
				continue
			}
			expect[tops[i]] = refItem{Rel: tops[i], IsDir: true, Abs: absTargets[i], Kind: "dir"}
			for _, r := range refWalk(absTargets[i]) {
				r.Rel = tops[i] + "/" + r.Rel
				if c.Args[i].Spelling == "symlink" {
					// a symlinked directory given as argument: the statement does not define "beneath"
					// through a link, so its content is optional (but must be faithful if listed)
					r.Kind = "optional:" + r.Kind
				}
				expect[r.Rel] = r
			}
		}
		hasSpecial := false
		var files, folders int
		var total int64
		for _, it := range m.Items {
			if it.IsDir {
				folders++
			} else {
				files++
				total += it.Size
			}
			ex, ok := expect[it.RelPath]
			if !ok {
				if seen[it.RelPath] > 1 {
					continue
				}
				rec.Fail(rt, "unexpected-item", fmt.Sprintf("manifest lists %q which is not beneath any given path | %s", it.RelPath, desc))
				return
			}
			ex.Kind = strings.TrimPrefix(ex.Kind, "optional:")
			if strings.HasPrefix(ex.Kind, "special") {
				hasSpecial = true
				classes["special-entry"] = true
				// (6) entries that are not plain files or directories: absent, or present with their readable size
				kind := ex.Kind
				var data []byte
				var err error
				if lfi, lerr := os.Stat(ex.Abs); lerr == nil && !lfi.Mode().IsRegular() && !lfi.IsDir() {
					err = fmt.Errorf("not a regular file (%s): reading it would block or is meaningless", lfi.Mode().Type())
				} else {
					data, err = os.ReadFile(ex.Abs)
				}
				if err != nil {
					if rec.Fail(rt, "special-entry-listed-unreadable", fmt.Sprintf("%q (%s) is listed as a file of size %d but cannot be read: %v | %s", it.RelPath, kind, it.Size, err, desc)) {
						continue
					}
					return
				}
				if int64(len(data)) != it.Size {
					if rec.Fail(rt, "symlink-size-is-link-length", fmt.Sprintf("%q (%s) is listed with size %d but reading it yields %d bytes | %s", it.RelPath, kind, it.Size, len(data), desc)) {
						continue
					}
					return
				}
				continue
			}
			if ex.IsDir != it.IsDir {
				rec.Fail(rt, "kind-mismatch", fmt.Sprintf("%q: is_dir=%v, on disk dir=%v | %s", it.RelPath, it.IsDir, ex.IsDir, desc))
				return
			}
			if !it.IsDir {
				// origin evidence: every source file has its own modification time; an entry whose
				// size and time are those of the same-named file under another argument, and not
				// those of the file it resolves to, came from that other argument
				if own, err := os.Stat(ex.Abs); err == nil && (own.ModTime().Unix() != it.ModTime || own.Size() != it.Size) {
					parts := strings.SplitN(it.RelPath, "/", 2)
					for j := range paths {
						cand := absTargets[j]
						if len(parts) == 2 {
							cand = filepath.Join(cand, filepath.FromSlash(parts[1]))
						}
						if o, err := os.Stat(cand); err == nil && !os.SameFile(o, own) && o.Mode().IsRegular() && o.ModTime().Unix() == it.ModTime && o.Size() == it.Size {
							rec.Fail(rt, "resolves-to-other-file", fmt.Sprintf("%q carries size %d and time %d of %q but resolves to %q (size %d, time %d) | %s", it.RelPath, it.Size, it.ModTime, cand, ex.Abs, own.Size(), own.ModTime().Unix(), desc))
							return
						}
					}
				}
				res := resolver(it.RelPath)
				data, err := os.ReadFile(res)
				if err != nil || int64(len(data)) != it.Size {
					rec.Fail(rt, "size-not-what-will-be-read", fmt.Sprintf("%q: listed size %d, reading the resolved path %q gives %d bytes (err %v) | %s", it.RelPath, it.Size, res, len(data), err, desc))
					return
				}
				a, e1 := os.Stat(res)
				b, e2 := os.Stat(ex.Abs)
				if e1 != nil || e2 != nil || !os.SameFile(a, b) {
					rec.Fail(rt, "resolves-to-other-file", fmt.Sprintf("%q resolves to %q, its origin is %q | %s", it.RelPath, res, ex.Abs, desc))
					return
				}
			}
		}
		if serr == nil || !hasSpecial {
			for rel, ex := range expect {
				if strings.HasPrefix(ex.Kind, "special") || strings.HasPrefix(ex.Kind, "optional:") {
					continue
				}
				if seen[rel] == 0 {
					rec.Fail(rt, "missing-item", fmt.Sprintf("%q (%s) beneath a given path is not listed (scan error: %v) | %s", rel, ex.Kind, serr, desc))
					return
				}
			}
		}
		if files != m.FileCount || folders != m.FolderCount || total != m.TotalBytes {
			rec.Fail(rt, "counts-do-not-add-up", fmt.Sprintf("items: %d files %d folders %d bytes; header: %d files %d folders %d bytes | %s", files, folders, total, m.FileCount, m.FolderCount, m.TotalBytes, desc))
			return
		}
		// (5) determinism
		if futureTimes {
			time.Sleep(1050 * time.Millisecond)
		}
		m2, _ := manifest.ScanPaths(paths)
		if !reflect.DeepEqual(m, m2) {
			rec.Fail(rt, "rescan-differs", "scanning the same unchanged paths again gave another manifest | "+desc)
			return
		}
		_ = symlinkArg
		var cl []string
		for k := range classes {
			cl = append(cl, k)
			rec.Class(k)
		}
		sort.Strings(cl)
		if len(paths) >= 2 && len(cl) > 0 {
			rec.NonTrivial(fmt.Sprint(cl) + fmt.Sprint(tops) + fmt.Sprint(len(m.Items)))
		}
		if rec.SampleWanted() && len(paths) >= 2 {
			rec.Sample(map[string]any{"paths": paths, "items": len(m.Items), "classes": cl})
		}
	})
}
