package verifxfer

import (
	"context"
	"crypto/sha256"
	"encoding/hex"
	"encoding/json"
	"fmt"
	"hash/crc32"
	"hash/fnv"
	"os"
	"path/filepath"
	"sort"
	"strings"
	"testing"
	"time"

	"github.com/sheerbytes/sheerbytes/internal/transfer"
	"github.com/sheerbytes/sheerbytes/internal/verifkit"
	"github.com/sheerbytes/sheerbytes/internal/verifnet"
	"pgregory.net/rapid"
)

// ---- C07: the receiver never touches anything outside its output directory ----------

var crc32c = crc32.MakeTable(crc32.Castagnoli)

// hostileItem is one manifest item of a hostile sender (all strings arbitrary).
type hostileItem struct {
	RelPath string `json:"rel_path"`
	Size    int64  `json:"size"`
	ModTime int64  `json:"mod_time"`
	IsDir   bool   `json:"is_dir"`
	ID      string `json:"id"`
}
type hostileManifest struct {
	Root        string        `json:"root"`
	Items       []hostileItem `json:"items"`
	TotalBytes  int64         `json:"total_bytes"`
	FileCount   int           `json:"file_count"`
	FolderCount int           `json:"folder_count"`
}

type c07Case struct {
	M         hostileManifest
	BeginPath []string // FileBegin.rel_path per file item (may differ from the manifest)
	Fields    []string // which fields carry a hostile string
	NoRootDir bool
	Resume    bool
	Variant   string // multi | legacy-manifest | recvfile
	Chunk     int
	EmptyOut  bool     // the receiver is given "" as output directory and runs with the output directory as cwd
	DirRec    []string // legacy protocol: path sent in the directory record of each directory item ("" = the manifest's)
}

func (c c07Case) String() string {
	b, _ := json.Marshal(c)
	return string(b)
}

var c07Names = []string{"sentinel.txt", "victim", "x", "pwn", ".thruflux_resumedata", "out", "l3", "a b"}

// genEscape draws a string from the escape grammar with at most 6 parent references.
func genEscape(t *rapid.T, label string) string {
	nseg := rapid.IntRange(1, 7).Draw(t, label+"_n")
	parents := 0
	var segs []string
	for i := 0; i < nseg; i++ {
		k := rapid.IntRange(0, 11).Draw(t, fmt.Sprintf("%s_k%d", label, i))
		switch k {
		case 0, 1, 2, 3:
			if parents < 6 {
				segs = append(segs, "..")
				parents++
			} else {
				segs = append(segs, "x")
			}
		case 4:
			segs = append(segs, ".")
		case 5:
			segs = append(segs, "")
		case 6:
			segs = append(segs, "..name")
		case 7:
			segs = append(segs, "name..")
		case 8:
			segs = append(segs, "%2e%2e")
		case 9:
			segs = append(segs, strings.Repeat("n", 300))
		default:
			segs = append(segs, rapid.SampledFrom(c07Names).Draw(t, fmt.Sprintf("%s_name%d", label, i)))
		}
	}
	sep := rapid.SampledFrom([]string{"/", "/", "/", "//", "\\"}).Draw(t, label+"_sep")
	s := strings.Join(segs, sep)
	// neutral padding ("x/../" cancels out) in front of the escaping part, so that the whole
	// string crosses the protocol's length limits (1024 bytes for a rel_path, 64 KiB for a
	// 16-bit length prefix) while still naming the same place
	if rapid.IntRange(0, 4).Draw(t, label+"_pad") == 0 {
		target := rapid.SampledFrom([]int{1000, 1030, 2000, 5000, 70000}).Draw(t, label+"_padlen")
		unit := rapid.SampledFrom([]string{"x/../", "sub/../", "./", "é/../"}).Draw(t, label+"_padunit")
		if n := (target - len(s)) / len(unit); n > 0 {
			if rapid.Bool().Draw(t, label+"_padfront") {
				s = strings.Repeat(unit, n) + s
			} else {
				s = "sub/" + strings.Repeat(unit, n) + "../" + s
			}
		}
	}
	if rapid.IntRange(0, 5).Draw(t, label+"_abs") == 0 {
		s = "/" + s
	}
	if rapid.IntRange(0, 9).Draw(t, label+"_nul") == 0 {
		s += "\x00"
	}
	// always end in a name so that something would be created
	if rapid.Bool().Draw(t, label+"_tailname") {
		s += "/" + rapid.SampledFrom(c07Names).Draw(t, label+"_tail")
	}
	return s
}

func genC07(t *rapid.T) c07Case {
	c := c07Case{Chunk: rapid.SampledFrom([]int{4, 16, 64}).Draw(t, "chunk")}
	c.Variant = rapid.SampledFrom([]string{"multi", "multi", "multi", "multi", "legacy-manifest", "recvfile"}).Draw(t, "variant")
	c.NoRootDir = rapid.Bool().Draw(t, "noroot")
	c.Resume = rapid.Bool().Draw(t, "resume")
	c.M.Root = "root"
	nd := rapid.IntRange(0, 2).Draw(t, "ndirs")
	nf := rapid.IntRange(1, 3).Draw(t, "nfiles")
	for i := 0; i < nd; i++ {
		c.M.Items = append(c.M.Items, hostileItem{RelPath: fmt.Sprintf("d%d", i), IsDir: true, ID: fmt.Sprintf("%016x", 100+i)})
	}
	for i := 0; i < nf; i++ {
		size := rapid.IntRange(0, 3*c.Chunk).Draw(t, fmt.Sprintf("size%d", i))
		c.M.Items = append(c.M.Items, hostileItem{RelPath: fmt.Sprintf("f%d.bin", i), Size: int64(size), ID: fmt.Sprintf("%016x", 200+i)})
		c.M.TotalBytes += int64(size)
	}
	c.M.FileCount, c.M.FolderCount = nf, nd
	// which fields are hostile: mostly exactly one (attribution), sometimes several
	fields := []string{"manifest.root", "dir.rel_path", "file.rel_path", "item.id", "filebegin.rel_path", "dirrecord.rel_path"}
	c.EmptyOut = c.Variant != "recvfile" && rapid.IntRange(0, 3).Draw(t, "empty_outdir") == 2
	c.DirRec = make([]string, nd)
	nh := rapid.SampledFrom([]int{1, 1, 1, 1, 2, 3}).Draw(t, "nhostile")
	chosen := map[string]bool{}
	for i := 0; i < nh; i++ {
		chosen[rapid.SampledFrom(fields).Draw(t, fmt.Sprintf("field%d", i))] = true
	}
	if nd == 0 {
		delete(chosen, "dir.rel_path")
	}
	if nd == 0 || c.Variant != "legacy-manifest" {
		delete(chosen, "dirrecord.rel_path")
	}
	if len(chosen) == 0 {
		chosen["manifest.root"] = true
	}
	for f := range chosen {
		c.Fields = append(c.Fields, f)
	}
	sort.Strings(c.Fields)
	for _, it := range c.M.Items {
		if !it.IsDir {
			c.BeginPath = append(c.BeginPath, it.RelPath)
		}
	}
	for _, f := range c.Fields {
		s := genEscape(t, "esc_"+f)
		switch f {
		case "manifest.root":
			c.M.Root = s
		case "dir.rel_path":
			for i := range c.M.Items {
				if c.M.Items[i].IsDir {
					c.M.Items[i].RelPath = s
					break
				}
			}
		case "file.rel_path":
			k := 0
			for i := range c.M.Items {
				if !c.M.Items[i].IsDir {
					c.M.Items[i].RelPath = s
					c.BeginPath[k] = s
					break
				}
			}
		case "item.id":
			for i := range c.M.Items {
				if !c.M.Items[i].IsDir {
					c.M.Items[i].ID = s
					break
				}
			}
		case "filebegin.rel_path":
			c.BeginPath[0] = s
		case "dirrecord.rel_path":
			c.DirRec[0] = s
		}
	}
	return c
}

// snapshot lists everything below root except the subtree `except`.
func snapshot(root, except string) map[string]string {
	res := map[string]string{}
	filepath.Walk(root, func(p string, info os.FileInfo, err error) error {
		if err != nil {
			return nil
		}
		if p == except {
			return filepath.SkipDir
		}
		rel, _ := filepath.Rel(root, p)
		switch {
		case info.IsDir():
			res[rel] = "dir"
		case info.Mode().IsRegular():
			data, _ := os.ReadFile(p)
			h := sha256.Sum256(data)
			res[rel] = fmt.Sprintf("file:%d:%s:%d", len(data), hex.EncodeToString(h[:6]), info.ModTime().UnixNano())
		default:
			res[rel] = "other:" + info.Mode().String()
		}
		return nil
	})
	return res
}

func diffSnap(a, b map[string]string) string {
	var d []string
	for k, v := range a {
		if w, ok := b[k]; !ok {
			d = append(d, "deleted "+k)
		} else if w != v {
			d = append(d, fmt.Sprintf("modified %s (%s -> %s)", k, v, w))
		}
	}
	for k, v := range b {
		if _, ok := a[k]; !ok {
			d = append(d, fmt.Sprintf("created %s (%s)", k, v))
		}
	}
	sort.Strings(d)
	if len(d) > 6 {
		d = append(d[:6], fmt.Sprintf("... %d more", len(d)-6))
	}
	return strings.Join(d, "; ")
}

// buildSandbox creates sbx/l1/.../l7/out with sentinels at every level; returns sandbox root and out dir.
func buildSandbox(dir string) (string, string) {
	sbx := filepath.Join(dir, "sbx")
	cur := sbx
	for i := 1; i <= 7; i++ {
		cur = filepath.Join(cur, fmt.Sprintf("l%d", i))
		os.MkdirAll(cur, 0755)
		os.WriteFile(filepath.Join(cur, "sentinel.txt"), []byte(fmt.Sprintf("sentinel %d", i)), 0644)
		os.MkdirAll(filepath.Join(cur, "victim"), 0755)
		os.WriteFile(filepath.Join(cur, "victim", "keep"), []byte("keep"), 0644)
		// a neighbouring download's resume metadata under the item ids the hostile sender uses
		// (the receiver looks for metadata below <out>/<root> as a fallback location)
		for _, d := range []string{cur, filepath.Join(cur, "victim")} {
			md := filepath.Join(d, verifnet.ResumeDirName)
			os.MkdirAll(md, 0755)
			for id := 200; id < 203; id++ {
				os.WriteFile(filepath.Join(md, fmt.Sprintf("%016x.sbxmap", id)), []byte(fmt.Sprintf("neighbour metadata %d", id)), 0644)
			}
		}
	}
	out := filepath.Join(cur, "out")
	os.MkdirAll(out, 0755)
	os.WriteFile(filepath.Join(sbx, "sentinel.txt"), []byte("top"), 0644)
	return sbx, out
}

func keyOf(it hostileItem) uint64 {
	h := fnv.New64a()
	if it.ID != "" {
		h.Write([]byte(it.ID))
	} else {
		h.Write([]byte(it.RelPath))
	}
	return h.Sum64()
}

// hostileSendMulti plays the sender side of the multi-stream protocol as far as the receiver lets it.
func hostileSendMulti(ctx context.Context, a *verifkit.MemConn, c c07Case) {
	mj, _ := json.Marshal(c.M)
	ctl, err := a.OpenStreamRaw(ctx)
	if err != nil {
		return
	}
	w := func(b []byte) bool { _, err := ctl.Write(b); return err == nil }
	if !w(verifnet.EncHeader(mj)) {
		return
	}
	ds, err := a.OpenStreamRaw(ctx)
	if err != nil {
		return
	}
	if !w(verifnet.EncDataStreams(1)) {
		return
	}
	k := 0
	for _, it := range c.M.Items {
		if it.IsDir {
			continue
		}
		key := keyOf(it)
		if !w(verifnet.EncFileBegin(c.BeginPath[k], uint64(it.Size), uint32(c.Chunk), key, 1)) {
			return
		}
		k++
		if c.Resume && !w(verifnet.EncResumeRequest(it.ID, key)) {
			return
		}
		data := verifkit.Content(uint64(k), int(it.Size))
		for off, idx := 0, 0; off < len(data); off, idx = off+c.Chunk, idx+1 {
			end := off + c.Chunk
			if end > len(data) {
				end = len(data)
			}
			if _, err := ds.Write(verifnet.EncChunk(key, uint32(idx), data[off:end], crc32.Checksum(data[off:end], crc32c))); err != nil {
				return
			}
		}
		if !w(verifnet.EncFileEnd(key)) {
			return
		}
	}
	time.Sleep(20 * time.Millisecond)
	w(verifnet.EncEnd())
	time.Sleep(20 * time.Millisecond)
}

// hostileSendLegacy speaks the single-stream manifest protocol (SBM1).
func hostileSendLegacy(ctx context.Context, a *verifkit.MemConn, c c07Case) {
	mj, _ := json.Marshal(c.M)
	s, err := a.OpenStreamRaw(ctx)
	if err != nil {
		return
	}
	var b []byte
	b = append(b, "SBM1"...)
	b = append(b, byte(len(mj)>>24), byte(len(mj)>>16), byte(len(mj)>>8), byte(len(mj)))
	b = append(b, mj...)
	k := 0
	di := 0
	for _, it := range c.M.Items {
		p := it.RelPath
		if it.IsDir {
			if di < len(c.DirRec) && c.DirRec[di] != "" {
				p = c.DirRec[di] // a record that does not say what the manifest announced
			}
			di++
			b = append(b, 0x01, byte(len(p)>>8), byte(len(p)))
			b = append(b, p...)
			continue
		}
		p = c.BeginPath[k]
		k++
		data := verifkit.Content(uint64(k), int(it.Size))
		b = append(b, 0x02, byte(len(p)>>8), byte(len(p)))
		b = append(b, p...)
		var sz [8]byte
		for i := 0; i < 8; i++ {
			sz[i] = byte(uint64(it.Size) >> (56 - 8*uint(i)))
		}
		b = append(b, sz[:]...)
		cs := uint32(c.Chunk)
		b = append(b, byte(cs>>24), byte(cs>>16), byte(cs>>8), byte(cs))
		for off := 0; off < len(data); off += c.Chunk {
			end := off + c.Chunk
			if end > len(data) {
				end = len(data)
			}
			l := uint32(end - off)
			b = append(b, byte(l>>24), byte(l>>16), byte(l>>8), byte(l))
			b = append(b, data[off:end]...)
			cr := crc32.Checksum(data[off:end], crc32c)
			b = append(b, byte(cr>>24), byte(cr>>16), byte(cr>>8), byte(cr))
		}
	}
	b = append(b, 0xFF)
	s.Write(b)
	time.Sleep(10 * time.Millisecond)
	s.Close()
}

func TestVerifC07Escape(t *testing.T) {
	rec := verifkit.NewRecorder("C07", "escape")
	defer rec.Flush()
	rapid.Check(t, func(rt *rapid.T) {
		c := genC07(rt)
		dir := caseDir("c07")
		defer os.RemoveAll(dir)
		sbx, out := buildSandbox(dir)
		recvOut := out
		if c.EmptyOut {
			// receive "into the current directory": the output directory is the cwd and the
			// receiver gets "". Absolute hostile paths are re-rooted into the sandbox so that a
			// receiver that honours them is observed there (and cannot touch the real root).
			reroot := func(s string) string {
				if strings.HasPrefix(s, "/") {
					return filepath.Join(sbx, "l1") + s
				}
				return s
			}
			c.M.Root = reroot(c.M.Root)
			for i := range c.M.Items {
				c.M.Items[i].RelPath = reroot(c.M.Items[i].RelPath)
			}
			for i := range c.BeginPath {
				c.BeginPath[i] = reroot(c.BeginPath[i])
			}
			for i := range c.DirRec {
				c.DirRec[i] = reroot(c.DirRec[i])
			}
			if wd, err := os.Getwd(); err == nil && os.Chdir(out) == nil {
				defer os.Chdir(wd)
				recvOut = ""
			}
		}
		before := snapshot(sbx, out)
		a, b := verifkit.NewMemPair(verifkit.MemOptions{})
		ctx, cancel := context.WithTimeout(context.Background(), 5*time.Second)
		done := make(chan error, 1)
		go func() {
			var err error
			switch c.Variant {
			case "multi":
				_, err = transfer.RecvManifestMultiStream(ctx, verifnet.MemConnAdapter{C: b}, recvOut, transfer.Options{Resume: c.Resume, NoRootDir: c.NoRootDir, HashAlg: "crc32c", ParallelFiles: 1})
			case "legacy-manifest":
				var s transfer.Stream
				s, err = verifnet.MemConnAdapter{C: b}.AcceptStream(ctx)
				if err == nil {
					_, err = transfer.RecvManifest(ctx, s, recvOut, nil)
				}
			case "recvfile":
				var s transfer.Stream
				s, err = verifnet.MemConnAdapter{C: b}.AcceptStream(ctx)
				if err == nil {
					_, err = transfer.RecvFile(ctx, s, out)
				}
			}
			done <- err
		}()
		switch c.Variant {
		case "multi":
			hostileSendMulti(ctx, a, c)
		case "legacy-manifest":
			hostileSendLegacy(ctx, a, c)
		case "recvfile":
			// SendFile protocol: magic "SBF1"? use the repository's own framing through a hostile name
			s, err := a.OpenStreamRaw(ctx)
			if err == nil {
				name := c.BeginPath[0]
				data := []byte("payload")
				var bb []byte
				bb = append(bb, "SBX1"...)
				bb = append(bb, byte(len(name)>>8), byte(len(name)))
				bb = append(bb, name...)
				var sz [8]byte
				sz[7] = byte(len(data))
				bb = append(bb, sz[:]...)
				bb = append(bb, data...)
				s.Write(bb)
				s.Close()
			}
		}
		a.Close()
		var rerr error
		select {
		case rerr = <-done:
		case <-time.After(6 * time.Second):
		}
		cancel()
		b.Close()
		after := snapshot(sbx, out)
		rec.Eval()
		rec.Class("variant/" + c.Variant)
		if c.EmptyOut && recvOut == "" {
			rec.Class("output-directory-given-as-empty-string")
		}
		for _, f := range c.Fields {
			rec.Class("field/" + f)
		}
		if d := diffSnap(before, after); d != "" {
			sig := "escape-via=" + strings.Join(c.Fields, "+") + "/" + c.Variant
			if len(c.Fields) == 1 {
				sig = "escape-via=" + c.Fields[0] + "/" + c.Variant
			}
			rec.Fail(rt, sig, fmt.Sprintf("filesystem changed outside the output directory: %s | receiver error: %v | case: %s", d, rerr, c))
			return
		}
		rec.NonTrivial(strings.Join(c.Fields, "+") + "/" + c.Variant + fmt.Sprintf("/%v%v/", c.NoRootDir, c.Resume) + normEscape(c))
		if rec.SampleWanted() {
			rec.Sample(map[string]any{"case": c.String(), "receiver_error": fmt.Sprint(rerr)})
		}
	})
}

// normEscape gives the normalised shape of the hostile strings of a case (for distinctness).
func normEscape(c c07Case) string {
	var parts []string
	add := func(s string) {
		s = strings.ReplaceAll(s, strings.Repeat("n", 300), "LONG")
		for _, n := range c07Names {
			s = strings.ReplaceAll(s, n, "N")
		}
		parts = append(parts, s)
	}
	add(c.M.Root)
	for _, it := range c.M.Items {
		add(it.RelPath)
		add(it.ID)
	}
	for _, p := range c.BeginPath {
		add(p)
	}
	return strings.Join(parts, "|")
}
