package verifxfer

import (
	"context"
	"encoding/json"
	"fmt"
	"os"
	"path/filepath"
	"sort"
	"strings"
	"sync"
	"sync/atomic"
	"testing"
	"time"

	"github.com/sheerbytes/sheerbytes/internal/verifhook"
	"github.com/sheerbytes/sheerbytes/internal/verifkit"
	"github.com/sheerbytes/sheerbytes/internal/verifnet"
	"pgregory.net/rapid"
)

// ---- C02: no false success under faults and aborts ---------------------------------

// c02Fault is one injected fault.
type c02Fault struct {
	Kind string // conn:<memnet fault>, flip, abort-send, abort-recv, src-shorten, src-delete, obstruct-dir-at-file, obstruct-file-at-dir
	// connection faults / flips
	Conn    int
	Ordinal int
	Dir     verifkit.Dir
	Frac    float64 // position as fraction of what flowed in the fault-free reference run
	Bit     uint
	// aborts and mid-run source mutation: k-th hook hit (fraction of the reference hit count)
	HitFrac float64
	// source mutations / obstructions: which file, new length fraction
	File    int
	LenFrac float64
	MidRun  bool
	Exact   bool // Ordinal/Dir name the stream exactly (enumeration) instead of indexing the streams that carried data
}

func (f c02Fault) String() string {
	b, _ := json.Marshal(f)
	return string(b)
}

var connFaultKinds = map[string]verifkit.FaultKind{
	"conn:abrupt-loss": verifkit.FaultAbrupt, "conn:close-by-sender": verifkit.FaultCloseByA,
	"conn:close-by-receiver": verifkit.FaultCloseByB,
}

var c02Kinds = []string{"conn:abrupt-loss", "conn:abrupt-loss", "conn:close-by-sender", "conn:close-by-receiver", "conn:close-by-receiver",
	"flip", "flip", "abort-send", "abort-recv", "cancel-send", "cancel-recv", "src-shorten", "src-delete", "obstruct-dir-at-file", "obstruct-file-at-dir"}

func genFault(t *rapid.T, x xcase, total int) c02Fault {
	f := c02Fault{Kind: rapid.SampledFrom(c02Kinds).Draw(t, "fault_kind")}
	f.Conn = rapid.IntRange(0, x.Conns-1).Draw(t, "fault_conn")
	perConn := (total + x.Conns - 1) / x.Conns
	f.Ordinal = rapid.IntRange(0, perConn+1).Draw(t, "fault_stream")
	f.Dir = verifkit.Dir(rapid.IntRange(0, 1).Draw(t, "fault_dir"))
	f.Frac = frac(t, "fault_pos")
	if rapid.IntRange(0, 4).Draw(t, "fault_pos_edge") == 0 {
		f.Frac = rapid.SampledFrom([]float64{0, 0.999999}).Draw(t, "fault_edge")
	}
	f.Bit = uint(rapid.IntRange(0, 7).Draw(t, "fault_bit"))
	f.HitFrac = frac(t, "fault_hit")
	f.File = rapid.IntRange(0, 20).Draw(t, "fault_file")
	f.LenFrac = frac(t, "fault_len")
	f.MidRun = rapid.Bool().Draw(t, "fault_midrun")
	return f
}

// frameTracker follows the chunk frames of one data stream direction and flips one bit of
// the k-th "payload or checksum" byte that passes (all streams of a pair share the counter).
type frameTracker struct {
	mu      sync.Mutex
	pos     map[[2]int]*frameState
	count   int64 // payload+crc bytes seen so far
	target  int64 // flip the byte with this index (-1: never)
	bit     uint
	flipped bool
}
type frameState struct {
	hdr     [20]byte
	inHdr   int
	payLeft uint32
}

func (ft *frameTracker) mutate(conn int) func(ordinal int, d verifkit.Dir, off int64, p []byte) []byte {
	return func(ordinal int, d verifkit.Dir, off int64, p []byte) []byte {
		if d != verifkit.AtoB || ordinal == 0 && conn == 0 {
			return p // control stream or receiver-to-sender direction
		}
		ft.mu.Lock()
		defer ft.mu.Unlock()
		st := ft.pos[[2]int{conn, ordinal}]
		if st == nil {
			st = &frameState{}
			ft.pos[[2]int{conn, ordinal}] = st
		}
		var out []byte
		for i := 0; i < len(p); i++ {
			cand := false
			if st.payLeft > 0 {
				st.payLeft--
				cand = true
			} else {
				st.hdr[st.inHdr] = p[i]
				if st.inHdr >= 16 {
					cand = true // checksum field
				}
				st.inHdr++
				if st.inHdr == 20 {
					st.inHdr = 0
					st.payLeft = uint32(st.hdr[12])<<24 | uint32(st.hdr[13])<<16 | uint32(st.hdr[14])<<8 | uint32(st.hdr[15])
				}
			}
			if cand {
				if ft.count == ft.target && !ft.flipped {
					if out == nil {
						out = append([]byte(nil), p...)
					}
					out[i] ^= 1 << ft.bit
					ft.flipped = true
				}
				ft.count++
			}
		}
		if out != nil {
			return out
		}
		return p
	}
}

// c02Ref is what the fault-free reference run of a case measured.
type c02Ref struct {
	counts   []map[[2]int]int64 // per conn: bytes per (ordinal, dir)
	hookHits int64
	flipDom  int64
	ok       bool
}

// c02RunOne executes one run of the prepared case with an optional fault.
// It returns the run result, whether the fault struck, the taps, and the expected-tree diff of the output.
type c02Out struct {
	res      verifnet.RunResult
	struck   bool
	taps     []*verifkit.Tap
	hookHits int64
	flipDom  int64
	faultAt  string
}

func c02Run(p *prepared, f *c02Fault, ref *c02Ref, plan []perturb) c02Out {
	var out c02Out
	n := p.x.Conns
	out.taps = make([]*verifkit.Tap, n)
	ft := &frameTracker{pos: map[[2]int]*frameState{}, target: -1}
	if f != nil && f.Kind == "flip" && ref != nil && ref.flipDom > 0 {
		ft.target = int64(f.Frac * float64(ref.flipDom))
		if ft.target >= ref.flipDom {
			ft.target = ref.flipDom - 1
		}
		ft.bit = f.Bit
		out.faultAt = fmt.Sprintf("flip payload/checksum byte #%d bit %d", ft.target, ft.bit)
	}
	var struck atomic.Bool
	pair, err := p.newPair(func(i int) verifkit.MemOptions {
		o := verifkit.MemOptions{QUICVisibility: p.x.QUICVis, Window: p.x.Window}
		out.taps[i] = &verifkit.Tap{}
		o.Tap = out.taps[i]
		o.Mutate = ft.mutate(i)
		if f != nil && ref != nil && i == f.Conn {
			if k, ok := connFaultKinds[f.Kind]; ok {
				// the stream/direction is chosen among those that carried bytes in the reference run
				var keys [][2]int
				for key, n := range ref.counts[i] {
					if n > 0 {
						keys = append(keys, key)
					}
				}
				sort.Slice(keys, func(a, b int) bool {
					return keys[a][0] < keys[b][0] || keys[a][0] == keys[b][0] && keys[a][1] < keys[b][1]
				})
				if len(keys) > 0 {
					key := keys[(f.Ordinal*2+int(f.Dir))%len(keys)]
					if f.Exact {
						key = [2]int{f.Ordinal, int(f.Dir)}
					}
					flowed := ref.counts[i][key]
					off := int64(f.Frac * float64(flowed))
					if off >= flowed {
						off = flowed - 1
					}
					if flowed > 0 {
						o.Fault = &verifkit.Fault{Kind: k, Ordinal: key[0], Dir: verifkit.Dir(key[1]), Offset: off}
						o.OnFault = func() { struck.Store(true) }
						out.faultAt = fmt.Sprintf("%s conn %d stream #%d %s offset %d of %d", f.Kind, i, key[0], verifkit.Dir(key[1]), off, flowed)
					}
				}
			}
		}
		return o
	})
	if err != nil {
		return out
	}
	defer pair.Close()
	sctx, scancel := context.WithCancel(context.Background())
	rctx, rcancel := context.WithCancel(context.Background())
	defer scancel()
	defer rcancel()
	var hits atomic.Int64
	var abortAt int64 = -1
	if f != nil && ref != nil && (strings.HasPrefix(f.Kind, "abort") || strings.HasPrefix(f.Kind, "cancel") || (strings.HasPrefix(f.Kind, "src-") && f.MidRun)) && ref.hookHits > 0 {
		abortAt = 1 + int64(f.HitFrac*float64(ref.hookHits))
		if abortAt > ref.hookHits {
			abortAt = ref.hookHits
		}
		out.faultAt = fmt.Sprintf("%s at hook hit %d of %d", f.Kind, abortAt, ref.hookHits)
	}
	extra := func(name, detail string, nn int64) {
		h := hits.Add(1)
		if h != abortAt || f == nil {
			return
		}
		struck.Store(true)
		switch f.Kind {
		case "abort-send":
			// what the application does when a peer leaves or the user quits: cancel and close
			scancel()
			for _, c := range pair.MemA {
				c.Close()
			}
		case "abort-recv":
			rcancel()
			for _, c := range pair.MemB {
				c.Close()
			}
		case "cancel-send": // context cancellation alone; the connection goes when the endpoint has returned
			scancel()
		case "cancel-recv":
			rcancel()
		case "src-shorten", "src-delete":
			c02MutateSource(p, f)
		}
	}
	// a receiver whose endpoint failed does not vanish at once: its streams end first, the
	// connection goes a little later (for a third of the faulted runs)
	var recvCloseDelay time.Duration
	if f != nil && (f.Bit%3 == 1) && (strings.HasPrefix(f.Kind, "obstruct") || strings.HasPrefix(f.Kind, "src-") || f.Kind == "flip") {
		recvCloseDelay = 700 * time.Millisecond
	}
	remove := installPerturb(plan, extra)
	out.res = verifnet.Run(verifnet.RunCfg{
		Manifest: p.m, RootPath: p.rootPath, OutDir: p.out, SendOpts: p.sendOpts(), RecvOpts: p.recvOpts(),
		Pair: pair, Watchdog: 30 * time.Second, Idle: 4 * time.Second, CloseOnReturn: true, CloseOnSuccess: true,
		SendCtx: sctx, RecvCtx: rctx, RecvCloseDelay: recvCloseDelay,
	})
	remove()
	verifhook.Set(nil)
	out.hookHits = hits.Load()
	out.flipDom = ft.count
	out.struck = struck.Load() || ft.flipped
	return out
}

// c02MutateSource shortens or deletes one source file (after the scan).
func c02MutateSource(p *prepared, f *c02Fault) (string, bool) {
	files := p.x.Tree.Files()
	if len(files) == 0 {
		return "", false
	}
	n := files[f.File%len(files)]
	path := filepath.Join(p.root, filepath.FromSlash(n.Rel))
	if f.Kind == "src-delete" {
		return n.Rel, os.Remove(path) == nil
	}
	if n.Size == 0 {
		return n.Rel, false
	}
	newLen := int64(f.LenFrac * float64(n.Size))
	if newLen >= int64(n.Size) {
		newLen = int64(n.Size) - 1
	}
	return fmt.Sprintf("%s:%d->%d", n.Rel, n.Size, newLen), os.Truncate(path, newLen) == nil
}

// c02DecoyCwd creates a directory holding, under every file path of the manifest, a file of
// the same length with other content, and makes it the working directory; the returned
// function restores the previous one.
func c02DecoyCwd(p *prepared, cwd string) (func(), error) {
	prev, err := os.Getwd()
	if err != nil {
		return nil, err
	}
	for i, it := range p.m.Items {
		if it.IsDir {
			continue
		}
		path := filepath.Join(cwd, filepath.FromSlash(it.RelPath))
		if err := os.MkdirAll(filepath.Dir(path), 0755); err != nil {
			return nil, err
		}
		if err := os.WriteFile(path, verifkit.Content(0xDEC0DEC0+uint64(i), int(it.Size)), 0644); err != nil {
			return nil, err
		}
	}
	if err := os.MkdirAll(cwd, 0755); err != nil {
		return nil, err
	}
	if err := os.Chdir(cwd); err != nil {
		return nil, err
	}
	return func() { os.Chdir(prev) }, nil
}

// c02Obstruct places an obstacle in the output directory; returns a description.
func c02Obstruct(p *prepared, f *c02Fault) (string, bool) {
	pre := p.out
	if p.prefix != "" {
		pre = filepath.Join(p.out, filepath.FromSlash(p.prefix))
	}
	switch f.Kind {
	case "obstruct-dir-at-file":
		files := p.x.Tree.Files()
		if len(files) == 0 {
			return "", false
		}
		n := files[f.File%len(files)]
		if f.Bit%2 == 0 {
			// (an empty file is confirmed without a single data frame: the receiver's failure on
			// it is all the sender ever hears about that file)
			for _, e := range files {
				if e.Size == 0 {
					n = e
					break
				}
			}
		}
		path := filepath.Join(pre, filepath.FromSlash(n.Rel))
		return "dir at " + n.Rel, os.MkdirAll(path, 0755) == nil
	case "obstruct-file-at-dir":
		var dirs []string
		for _, n := range p.x.Tree.Nodes {
			if n.Dir {
				dirs = append(dirs, n.Rel)
			} else if i := strings.LastIndex(n.Rel, "/"); i > 0 {
				dirs = append(dirs, n.Rel[:i])
			}
		}
		if len(dirs) == 0 {
			return "", false
		}
		sort.Strings(dirs)
		d := dirs[f.File%len(dirs)]
		path := filepath.Join(pre, filepath.FromSlash(d))
		if err := os.MkdirAll(filepath.Dir(path), 0755); err != nil {
			return "", false
		}
		return "file at " + d, os.WriteFile(path, []byte("obstacle"), 0644) == nil
	}
	return "", false
}

// confirmedFiles counts the files for which the receiver sent FileDone{ok=true}.
func confirmedFiles(tap *verifkit.Tap) int {
	recs, _, _ := verifnet.ParseControl(tap.StreamBytes(0, verifkit.BtoA), false)
	ok := map[uint64]bool{}
	for _, r := range recs {
		if r.Type == verifnet.WFileDone && r.OK {
			ok[r.StreamID] = true
		}
	}
	return len(ok)
}

// c02Judge applies the oracle of C02 to a faulted run. expectDiff is the diff of the output
// against the tree as scanned ("" = identical).
func c02Judge(p *prepared, o c02Out, f c02Fault) (sig, detail string) {
	res := o.res
	if res.Hung || !res.SendReturned || !res.RecvReturned {
		return "hang-after-fault:" + strings.SplitN(f.Kind, ":", 2)[0] + ":" + res.HangKind,
			fmt.Sprintf("endpoints did not stop within bounded time after the fault: %s\n%s", res, verifnet.TrimDump(res.Dump))
	}
	diff := p.checkTree()
	if res.RecvErr == nil && diff != "" {
		return "recv-success-with-wrong-tree:" + strings.SplitN(f.Kind, ":", 2)[0], fmt.Sprintf("receiver reported success but the tree differs: %s (%s)", diff, res)
	}
	if res.SendErr == nil {
		files := len(p.x.Tree.Files())
		if c := confirmedFiles(o.taps[0]); c < files {
			return "send-success-without-confirmation:" + strings.SplitN(f.Kind, ":", 2)[0], fmt.Sprintf("sender reported success but the receiver confirmed only %d of %d files (%s)", c, files, res)
		}
		if diff != "" {
			if files == 0 && res.RecvErr != nil {
				// a manifest without files has no confirmation record at all: the sender
				// cannot learn that the receiver failed (recorded finding; any other tree is
				// judged by the general signature below)
				return "send-success-with-wrong-tree:no-files-to-confirm", fmt.Sprintf("manifest without files: sender reported success but the receiver failed and its tree differs: %s (%s)", diff, res)
			}
			return "send-success-with-wrong-tree:" + strings.SplitN(f.Kind, ":", 2)[0], fmt.Sprintf("sender reported success but the receiver's tree differs: %s (%s)", diff, res)
		}
	}
	return "", ""
}

var c02PerturbSites = []string{"recv.main.case.controlErr", "recv.main.case.dataErr", "recv.main.case.done", "recv.main.case.control", "recv.main.case.ctx",
	"recv.finalize.before", "recv.finalize.after", "send.fileend.before", "send.chunk.before", "recv.chunk.written"}

func TestVerifC02Faults(t *testing.T) {
	rec := verifkit.NewRecorder("C02", "faults")
	defer rec.Flush()
	rapid.Check(t, func(rt *rapid.T) {
		o := verifnet.GenOpts{MaxFiles: 4, MaxChunks: 6, MinFiles: 1}
		x := genCase(rt, o, false, 0)
		x.HashAlg = ""
		f := genFault(rt, x, 8)
		// a schedule plan for the racing exits of the receiver and the sender's teardown
		np := rapid.IntRange(0, 3).Draw(rt, "nplan")
		var plan []perturb
		for i := 0; i < np; i++ {
			plan = append(plan, perturb{Site: rapid.SampledFrom(c02PerturbSites).Draw(rt, fmt.Sprintf("plansite%d", i)),
				Hit: rapid.IntRange(1, 4).Draw(rt, fmt.Sprintf("planhit%d", i)), Delay: time.Duration(rapid.IntRange(1, 15).Draw(rt, fmt.Sprintf("plandelay%d", i))) * time.Millisecond})
		}
		sig, detail, cls := c02Case(x, f, plan)
		if cls == "" {
			rec.Class("not-prepared")
			return
		}
		rec.Eval()
		rec.Class(cls)
		if cls == "reference-run-failed" {
			rec.Note("fault-free reference run failed: %s | case: %s", detail, x.String())
			return
		}
		if sig != "" {
			rec.Fail(rt, sig, "case: "+x.String()+" fault: "+f.String()+" plan: "+fmt.Sprint(plan)+" | "+detail)
			return
		}
		if strings.HasPrefix(cls, "struck") {
			rec.NonTrivial(f.Kind + fmt.Sprintf("/%d/%d/%.2f/%.2f|", f.Ordinal, f.Dir, f.Frac, f.HitFrac) + x.fingerprint())
		}
		if rec.SampleWanted() {
			rec.Sample(map[string]any{"case": x.String(), "fault": f, "plan": fmt.Sprint(plan), "class": cls})
		}
	})
}

// c02Case runs reference + faulted run and judges; cls is a class label for statistics.
func c02Case(x xcase, f c02Fault, plan []perturb) (sig, detail, cls string) {
	dir := caseDir("c02")
	defer os.RemoveAll(dir)
	// reference (fault-free) run to learn what flows where
	px, err := prepare(x, filepath.Join(dir, "ref"))
	if err != nil {
		return "", "", ""
	}
	ro := c02Run(px, nil, nil, nil)
	if !ro.res.BothOK() {
		// C03 owns fault-free completion
		return "", ro.res.String(), "reference-run-failed"
	}
	ref := &c02Ref{hookHits: ro.hookHits, flipDom: ro.flipDom, ok: true}
	for _, tp := range ro.taps {
		ref.counts = append(ref.counts, tp.Counts())
	}
	p, err := prepare(x, filepath.Join(dir, "run"))
	if err != nil {
		return "", "", ""
	}
	applied := true
	if strings.HasPrefix(f.Kind, "src-") && x.Mode == "paths" && !x.Legacy {
		// the production sender runs with root path "." and a resolver: whatever lies below
		// its working directory under the manifest's relative names must never be read in
		// place of a selected file. Offer such look-alikes (same names and lengths, other
		// bytes) in a private working directory for the time of the run.
		if back, err := c02DecoyCwd(p, filepath.Join(dir, "cwd")); err == nil {
			defer back()
		}
	}
	switch {
	case strings.HasPrefix(f.Kind, "src-") && !f.MidRun:
		_, applied = c02MutateSource(p, &f)
	case strings.HasPrefix(f.Kind, "obstruct"):
		_, applied = c02Obstruct(p, &f)
	}
	o := c02Run(p, &f, ref, plan)
	struck := o.struck || ((strings.HasPrefix(f.Kind, "src-") && !f.MidRun || strings.HasPrefix(f.Kind, "obstruct")) && applied)
	cls = "struck/" + f.Kind
	if !struck {
		cls = "not-struck/" + f.Kind
	}
	sig, detail = c02Judge(p, o, f)
	if sig != "" {
		detail = "fault position: " + o.faultAt + " | " + detail
	}
	return sig, detail, cls
}

// TestVerifC02Exhaustive enumerates every byte position of every stream and direction of
// small fixed workloads for the connection-level fault kinds.
func TestVerifC02Exhaustive(t *testing.T) {
	rec := verifkit.NewRecorder("C02", "positions")
	defer rec.Flush()
	sh, nsh := verifkit.Shard()
	type wl struct {
		files, chunks, streams int
		resume                 bool
	}
	wls := []wl{{1, 2, 1, false}, {2, 1, 1, true}}
	stride := 3
	if verifkit.Thorough() {
		wls = []wl{{1, 2, 1, false}, {2, 1, 1, true}, {1, 3, 2, true}, {2, 2, 2, false}, {3, 1, 1, true}, {1, 1, 1, false}}
		stride = 1
	}
	k := 0
	total := 0
	for _, w := range wls {
		x := xcase{Tree: gridTree(w.files, w.chunks, 16), Chunk: 16, Streams: w.streams, Conns: 1, SendResume: true, RecvResume: w.resume, NoRootDir: true, Mode: "paths", QUICVis: true}
		dir := caseDir("c02x")
		px, err := prepare(x, filepath.Join(dir, "ref"))
		if err != nil {
			t.Fatalf("prepare: %v", err)
		}
		ro := c02Run(px, nil, nil, nil)
		os.RemoveAll(dir)
		if !ro.res.BothOK() {
			t.Fatalf("reference run failed: %s", ro.res)
		}
		counts := ro.taps[0].Counts()
		keys := make([][2]int, 0, len(counts))
		for key := range counts {
			keys = append(keys, key)
		}
		sort.Slice(keys, func(i, j int) bool {
			return keys[i][0] < keys[j][0] || keys[i][0] == keys[j][0] && keys[i][1] < keys[j][1]
		})
		for _, kind := range []string{"conn:abrupt-loss", "conn:close-by-sender", "conn:close-by-receiver"} {
			for _, key := range keys {
				flowed := counts[key]
				for off := int64(0); off < flowed; off += int64(stride) {
					k++
					if k%nsh != sh {
						continue
					}
					total++
					f := c02Fault{Kind: kind, Exact: true, Ordinal: key[0], Dir: verifkit.Dir(key[1]), Frac: (float64(off) + 0.5) / float64(flowed)}
					sig, detail, cls := c02Case(x, f, nil)
					if cls == "" || cls == "reference-run-failed" {
						rec.Class("skipped")
						continue
					}
					rec.Eval()
					rec.Class(cls)
					if sig != "" {
						rec.Fail(t, sig, fmt.Sprintf("workload files=%d chunks=%d streams=%d resume=%v fault=%s | %s", w.files, w.chunks, w.streams, w.resume, f, detail))
						continue
					}
					rec.NonTrivial(fmt.Sprintf("%v/%s/%d/%d/%d", w, kind, key[0], key[1], off))
				}
			}
		}
	}
	rec.Extra("positions_enumerated", total)
	rec.Extra("workloads", fmt.Sprint(wls))
	rec.Extra("position_stride", stride)
	rec.SetExhaustive(stride == 1)
}
