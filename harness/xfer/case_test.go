package verifxfer

import (
	"fmt"
	"os"
	"path/filepath"
	"strings"
	"sync"
	"time"
	"unicode/utf8"

	"github.com/sheerbytes/sheerbytes/internal/app"
	"github.com/sheerbytes/sheerbytes/internal/transfer"
	"github.com/sheerbytes/sheerbytes/internal/verifhook"
	"github.com/sheerbytes/sheerbytes/internal/verifkit"
	"github.com/sheerbytes/sheerbytes/internal/verifnet"
	"github.com/sheerbytes/sheerbytes/pkg/manifest"
	"pgregory.net/rapid"
)

// xcase is one generated transfer configuration.
type xcase struct {
	Tree       verifnet.Tree
	Chunk      int
	Streams    int // requested parallel streams
	Conns      int
	SendResume bool
	RecvResume bool
	NoRootDir  bool
	Mode       string // "scan" (manifest.Scan + root path) or "paths" (manifest.ScanPaths + production resolver)
	Legacy     bool   // single-stream SendManifest/RecvManifest
	QUICVis    bool   // memnet with QUIC stream visibility
	Window     int
	Segment    int // max bytes per Read on the transport (0 = unlimited)
	Perturb    []perturb
	HashAlg    string
	SlotFrac   float64 // --small-slot-frac (0 = the tool's default)
	SmallThr   int64   // scheduler size classes: files up to SmallThr are "small", up to MediumThr "medium"
	MediumThr  int64   // (0 = the tool's defaults, 4 MiB and 64 MiB - above every generated file)
}

type perturb struct {
	Site  string
	Hit   int
	Delay time.Duration
}

var perturbSites = []string{"send.chunk.before", "send.fileend.before", "send.resume.applied", "send.verify.hash.before",
	"recv.filebegin.truncated", "recv.filebegin.registered", "recv.chunk.written", "recv.chunk.marked", "recv.finalize.before",
	"recv.finalize.after", "recv.main.case.control", "recv.main.case.done", "sidecar.flush.begin"}

func (x xcase) String() string {
	return fmt.Sprintf("chunk=%d hash=%q streams=%d conns=%d resume(s=%v,r=%v) noroot=%v mode=%s legacy=%v quicvis=%v window=%d segment=%d perturb=%v tree=%s",
		x.Chunk, x.HashAlg, x.Streams, x.Conns, x.SendResume, x.RecvResume, x.NoRootDir, x.Mode, x.Legacy, x.QUICVis, x.Window, x.Segment, x.Perturb, x.Tree.Describe()) + slotFracNote(x.SlotFrac) + thresholdNote(x)
}

func (x xcase) fingerprint() string {
	var sb strings.Builder
	fmt.Fprintf(&sb, "%d/%d/%v%v%v/%s/%v/%v/%d|", x.Streams, x.Conns, x.SendResume, x.RecvResume, x.NoRootDir, x.Mode, x.Legacy, x.QUICVis, len(x.Perturb))
	for _, n := range x.Tree.Nodes {
		if n.Dir {
			sb.WriteString("d,")
			continue
		}
		q, r := n.Size/x.Chunk, n.Size%x.Chunk
		cls := "m"
		if r == 0 {
			cls = "0"
		} else if r == 1 {
			cls = "1"
		} else if r == x.Chunk-1 {
			cls = "-1"
		}
		fmt.Fprintf(&sb, "%d%s,", q, cls)
	}
	return sb.String()
}

func genChunk(t *rapid.T) int {
	return rapid.OneOf(rapid.IntRange(1, 64), rapid.IntRange(65, 4096), rapid.SampledFrom([]int{1, 2, 7, 16, 100, 512, 1000, 4096, 65536})).Draw(t, "chunk")
}

func genPerturb(t *rapid.T, max int) []perturb {
	n := rapid.IntRange(0, max).Draw(t, "nperturb")
	var out []perturb
	for i := 0; i < n; i++ {
		out = append(out, perturb{
			Site:  rapid.SampledFrom(perturbSites).Draw(t, fmt.Sprintf("psite%d", i)),
			Hit:   rapid.IntRange(1, 6).Draw(t, fmt.Sprintf("phit%d", i)),
			Delay: time.Duration(rapid.IntRange(1, 8).Draw(t, fmt.Sprintf("pdelay%d", i))) * time.Millisecond,
		})
	}
	return out
}

// installPerturb installs the hook callback for a perturbation plan; returns a remover.
func installPerturb(plan []perturb, extra func(name, detail string, n int64)) func() {
	if len(plan) == 0 && extra == nil {
		return func() {}
	}
	var mu sync.Mutex
	hits := map[string]int{}
	verifhook.Set(func(name, detail string, n int64) {
		var d time.Duration
		mu.Lock()
		hits[name]++
		h := hits[name]
		for _, p := range plan {
			if p.Site == name && p.Hit == h {
				d += p.Delay
			}
		}
		mu.Unlock()
		if d > 0 {
			time.Sleep(d)
		}
		if extra != nil {
			extra(name, detail, n)
		}
	})
	return func() { verifhook.Set(nil) }
}

// prepared is a materialised case ready to run.
type prepared struct {
	x        xcase
	dir      string
	root     string
	out      string
	m        manifest.Manifest
	rootPath string
	resolve  func(string) string
	prefix   string
	total    int
}

// prepare materialises the tree and scans it the way the production sender does.
func prepare(x xcase, dir string) (*prepared, error) {
	out := filepath.Join(dir, "out")
	if err := os.MkdirAll(out, 0755); err != nil {
		return nil, err
	}
	root, err := x.Tree.Materialize(filepath.Join(dir, "src"))
	if err != nil {
		return nil, fmt.Errorf("materialize: %w", err)
	}
	p, err := prepareAt(x, root, out)
	if p != nil {
		p.dir = dir
	}
	return p, err
}

// prepareAt scans an already materialised tree root (whose base name is x.Tree.Base).
func prepareAt(x xcase, root, out string) (*prepared, error) {
	p := &prepared{x: x, out: out, root: root}
	switch {
	case x.Mode == "paths" && !x.Legacy:
		m, err := manifest.ScanPaths([]string{root})
		if err != nil {
			return nil, fmt.Errorf("scan: %w", err)
		}
		res, err := app.VerifBuildPathResolver([]string{root})
		if err != nil {
			return nil, fmt.Errorf("resolver: %w", err)
		}
		p.m, p.resolve, p.rootPath = m, res, "."
		p.prefix = x.Tree.Base
		if !x.NoRootDir {
			p.prefix = m.Root + "/" + x.Tree.Base
		}
	default:
		m, err := manifest.Scan(root)
		if err != nil {
			return nil, fmt.Errorf("scan: %w", err)
		}
		p.m, p.rootPath = m, root
		p.prefix = ""
		if !x.NoRootDir || x.Legacy {
			p.prefix = m.Root
		}
	}
	p.total, _ = app.VerifComputeParallelBudget(p.m.FileCount, x.Streams, x.Conns, x.Conns > 1)
	return p, nil
}

func (p *prepared) sendOpts() transfer.Options {
	total := p.total
	chunk := uint32(p.x.Chunk)
	return transfer.Options{
		ChunkSize: chunk, ParallelFiles: total, StripeMax: p.x.Conns, Resume: p.x.SendResume, ResolveFilePath: p.resolve, HashAlg: p.x.HashAlg,
		SmallSlotFrac: p.x.SlotFrac, SmallThreshold: p.x.SmallThr, MediumThreshold: p.x.MediumThr,
		ParamSource: func() transfer.RuntimeParams { return transfer.RuntimeParams{ChunkSize: chunk, ParallelFiles: total} },
	}
}

func (p *prepared) recvOpts() transfer.Options {
	alg := p.x.HashAlg
	if alg == "" {
		alg = "crc32c"
	}
	return transfer.Options{Resume: p.x.RecvResume, NoRootDir: p.x.NoRootDir, HashAlg: alg, ParallelFiles: p.total}
}

func (p *prepared) newPair(optsFor func(i int) verifkit.MemOptions) (*verifnet.Pair, error) {
	if optsFor == nil {
		optsFor = func(int) verifkit.MemOptions {
			return verifkit.MemOptions{QUICVisibility: p.x.QUICVis, Window: p.x.Window, Segment: p.x.Segment}
		}
	}
	n := p.x.Conns
	if p.x.Legacy {
		n = 1
	}
	return verifnet.NewMemPairConn(n, optsFor)
}

// run executes the case once into p.out.
func (p *prepared) run(pair *verifnet.Pair, watchdog, idle time.Duration) verifnet.RunResult {
	return verifnet.Run(verifnet.RunCfg{
		Manifest: p.m, RootPath: p.rootPath, OutDir: p.out, SendOpts: p.sendOpts(), RecvOpts: p.recvOpts(),
		Legacy: p.x.Legacy, Pair: pair, Watchdog: watchdog, Idle: idle, CloseOnReturn: true,
	})
}

// checkTree compares the output directory with the expected tree; "" = identical.
func (p *prepared) checkTree() string {
	got, err := verifnet.Digest(p.out)
	if err != nil {
		return "cannot read output: " + err.Error()
	}
	want := p.x.Tree.Expected(p.prefix)
	if len(p.x.Tree.Nodes) == 0 {
		// an empty tree: whether the (empty) root directory itself is created is not part
		// of the statement; compare only that nothing else appeared
		for _, e := range got {
			if !e.Dir || !(e.Rel == p.prefix || strings.HasPrefix(p.prefix, e.Rel+"/")) {
				return "extra " + e.String()
			}
		}
		return ""
	}
	return verifnet.DiffDigests(want, got)
}

// nameClass reports whether the tree holds names from the classes the tool is known to reject.
func nameClass(tr verifnet.Tree) (dotdot, badutf8 bool) {
	for _, n := range tr.Nodes {
		for _, c := range strings.Split(n.Rel, "/") {
			if strings.Contains(c, "..") {
				dotdot = true
			}
		}
		if !utf8.ValidString(n.Rel) {
			badutf8 = true
		}
	}
	return
}

func maxChunksOf(x xcase) int {
	m := 0
	for _, f := range x.Tree.Files() {
		if c := (f.Size + x.Chunk - 1) / x.Chunk; c > m {
			m = c
		}
	}
	return m
}

func totalChunksOf(x xcase) int {
	m := 0
	for _, f := range x.Tree.Files() {
		m += (f.Size + x.Chunk - 1) / x.Chunk
	}
	return m
}

var caseSeq int

func caseDir(label string) string {
	caseSeq++
	d := filepath.Join(verifkit.WorkDir(), fmt.Sprintf("%s-%d", label, caseSeq))
	os.RemoveAll(d)
	os.MkdirAll(d, 0755)
	return d
}

// frac draws a fraction in [0,1) uniformly: rapid's numeric generators are biased towards
// small / "simple" values, which would put almost every fault at position 0, so the drawn
// value is passed through a bit mixer (still a pure function of the draw).
func frac(t *rapid.T, label string) float64 {
	v := rapid.Uint64().Draw(t, label)
	v += 0x9E3779B97F4A7C15
	v = (v ^ (v >> 30)) * 0xBF58476D1CE4E5B9
	v = (v ^ (v >> 27)) * 0x94D049BB133111EB
	v ^= v >> 31
	return float64(v>>11) / float64(1<<53)
}

// genThresholds draws the scheduler's size classes relative to the chunk size, so that the
// generated files (a few chunks each) fall into all three classes.
func genThresholds(t *rapid.T, x *xcase) {
	switch rapid.IntRange(0, 3).Draw(t, "size_classes") {
	case 1:
		x.SmallThr = int64(x.Chunk)
	case 2:
		x.SmallThr, x.MediumThr = int64(x.Chunk), int64(3*x.Chunk)
	case 3:
		x.SmallThr, x.MediumThr = int64(2*x.Chunk)+1, int64(5*x.Chunk)
	}
}

func thresholdNote(x xcase) string {
	if x.SmallThr == 0 && x.MediumThr == 0 {
		return ""
	}
	return fmt.Sprintf(" small<=%d medium<=%d", x.SmallThr, x.MediumThr)
}

func slotFracNote(f float64) string {
	if f == 0 {
		return ""
	}
	return fmt.Sprintf(" small-slot-frac=%v", f)
}
