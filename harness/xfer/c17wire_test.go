package verifxfer

import (
	"encoding/binary"
	"fmt"
	"os"
	"path/filepath"
	"sort"
	"testing"
	"time"

	"github.com/sheerbytes/sheerbytes/internal/verifkit"
	"github.com/sheerbytes/sheerbytes/internal/verifnet"
	"pgregory.net/rapid"
)

// ---- C17 (wire level): what the real sender puts on the wire ----------------------------------
//
// The real sender and receiver run over the in-memory transport with a tap on every
// connection; the taped bytes are decoded with the harness's own decoder. Oracle over the
// sender's output, per file of the manifest: exactly one FileBegin and one FileEnd; every
// chunk index the receiver did not report as present appears in exactly one frame (on any
// stream), reported ones in at most one - the verified (highest reported) chunk in at most
// two (its re-send) -, every frame has its reference length, FileEnd's frame count equals
// the frames actually sent, and (single connection: one global order) no frame of the file
// is written after its FileEnd. Prior states, hook perturbations and late resume reports
// vary which path the dispatcher takes.

type c17Seen struct {
	begins, ends int
	endSeq       int
	endFrames    uint32
	frames       map[uint32]int
	lastFrameSeq int
	badLen       string
	reported     []byte // bitmap of the receiver's resume report (nil: none seen)
	reportedTot  uint32
}

func c17Bit(b []byte, i uint32) bool { return int(i/8) < len(b) && b[i/8]&(1<<(i%8)) != 0 }

func TestVerifC17Wire(t *testing.T) {
	rec := verifkit.NewRecorder("C17", "wire")
	defer rec.Flush()
	rapid.Check(t, func(rt *rapid.T) {
		x := xcase{Chunk: rapid.OneOf(rapid.IntRange(1, 40), rapid.SampledFrom([]int{7, 16, 64})).Draw(rt, "chunk")}
		late := rapid.IntRange(0, 59).Draw(rt, "late_report") == 23
		maxFiles := 4
		if late {
			maxFiles = 2
		}
		x.Tree = verifnet.GenTree(rt, x.Chunk, verifnet.GenOpts{MaxFiles: maxFiles, MinFiles: 1, MaxChunks: 10})
		x.Streams = rapid.IntRange(1, 8).Draw(rt, "streams")
		x.Conns = rapid.SampledFrom([]int{1, 1, 1, 2}).Draw(rt, "conns")
		x.SendResume, x.RecvResume = true, rapid.IntRange(0, 4).Draw(rt, "recv_resume") != 0
		x.NoRootDir = true
		x.Mode = rapid.SampledFrom([]string{"scan", "paths"}).Draw(rt, "mode")
		x.QUICVis = rapid.Bool().Draw(rt, "quicvis")
		x.Perturb = genPerturb(rt, 3)
		x.SlotFrac = rapid.SampledFrom([]float64{0, 0, 0.25, 0.5, 0.75, 1}).Draw(rt, "small_slot_frac")
		genThresholds(rt, &x)
		dir := caseDir("c17w")
		defer os.RemoveAll(dir)
		p, err := prepare(x, dir)
		if err != nil {
			rec.Class("not-prepared")
			return
		}
		ps := priorState{Marked: map[string][]int{}}
		damaged := map[string]bool{}
		if x.RecvResume {
			for i, it := range p.fileItems() {
				total := (int(it.Size) + x.Chunk - 1) / x.Chunk
				if total == 0 {
					continue
				}
				var marked []int
				switch rapid.IntRange(0, 3).Draw(rt, fmt.Sprintf("prior%d", i)) {
				case 1:
					for j := 0; j < total; j++ {
						marked = append(marked, j)
					}
				case 2, 3:
					bits := rapid.SliceOfN(rapid.Bool(), total, total).Draw(rt, fmt.Sprintf("marked%d", i))
					for j, b := range bits {
						if b {
							marked = append(marked, j)
						}
					}
				}
				if len(marked) > 0 {
					ps.Marked[it.RelPath] = marked
				}
			}
			if err := p.installPrior(ps, 0); err != nil {
				rt.Fatalf("install prior: %v", err)
			}
			for i, it := range p.fileItems() {
				marked := ps.Marked[it.RelPath]
				if len(marked) == 0 || rapid.IntRange(0, 2).Draw(rt, fmt.Sprintf("damage%d", i)) != 0 {
					continue
				}
				hi := marked[len(marked)-1]
				fp := filepath.Join(p.baseDirOf(), filepath.FromSlash(it.RelPath))
				if data, err := os.ReadFile(fp); err == nil && hi*x.Chunk < len(data) {
					data[hi*x.Chunk] ^= 0x5a
					os.WriteFile(fp, data, 0644)
					damaged[it.RelPath] = true
				}
			}
		}
		taps := make([]*verifkit.Tap, x.Conns)
		for i := range taps {
			taps[i] = &verifkit.Tap{}
		}
		optsFor := func(i int) verifkit.MemOptions {
			o := verifkit.MemOptions{QUICVisibility: x.QUICVis, Tap: taps[i]}
			if late && i == 0 {
				o.Latency = func(ordinal int, d verifkit.Dir, off int64) time.Duration {
					if ordinal == 0 && d == verifkit.BtoA {
						if off == 0 {
							return 450 * time.Millisecond
						}
						return 600 * time.Millisecond
					}
					return 0
				}
			}
			return o
		}
		pair, err := p.newPair(optsFor)
		if err != nil {
			rt.Fatalf("pair: %v", err)
		}
		remove := installPerturb(x.Perturb, nil)
		res := p.run(pair, 30*time.Second, 5*time.Second)
		remove()
		pair.Close()
		rec.Eval()
		if late {
			rec.Class("late-resume-report")
		}
		if len(damaged) > 0 {
			rec.Class("verified-chunk-damaged")
		}
		if !res.BothOK() {
			rec.Class("transfer-not-ok")
			return
		}
		// decode what the sender wrote, in global order per connection
		seen := map[uint64]*c17Seen{}
		get := func(k uint64) *c17Seen {
			if seen[k] == nil {
				seen[k] = &c17Seen{frames: map[uint32]int{}}
			}
			return seen[k]
		}
		items := p.fileItems()
		byKey := map[uint64]int{}
		for i, it := range items {
			byKey[fileKeyOf(it)] = i
		}
		for ci, tap := range taps {
			bufs := map[int][]byte{}
			done := map[int]int{} // records/frames already attributed per stream
			ctlHeader := ci == 0
			for _, ev := range tap.Snapshot() {
				if ev.Dir == verifkit.BtoA {
					if ev.Ordinal == 0 && ci == 0 {
						bufs[-1] = append(bufs[-1], ev.Data...)
					}
					continue
				}
				bufs[ev.Ordinal] = append(bufs[ev.Ordinal], ev.Data...)
				if ev.Ordinal == 0 && ci == 0 {
					recs, _, _ := verifnet.ParseControl(bufs[0], ctlHeader)
					for _, r := range recs[done[0]:] {
						switch r.Type {
						case verifnet.WFileBegin:
							get(r.StreamID).begins++
						case verifnet.WFileEnd:
							s := get(r.StreamID)
							s.ends++
							s.endSeq = ev.Seq
							s.endFrames = binary.BigEndian.Uint32(bufs[0][r.End-4 : r.End])
						}
					}
					done[0] = len(recs)
					continue
				}
				frames := verifnet.ParseData(bufs[ev.Ordinal])
				for _, f := range frames[done[ev.Ordinal]:] {
					s := get(f.Key)
					s.frames[f.Index]++
					if ci == 0 {
						s.lastFrameSeq = ev.Seq
					}
					if i, ok := byKey[f.Key]; ok {
						size := int(items[i].Size)
						want := x.Chunk
						if rest := size - int(f.Index)*x.Chunk; rest < want {
							want = rest
						}
						if int(f.Len) != want {
							s.badLen = fmt.Sprintf("chunk %d has %d bytes on the wire, reference %d", f.Index, f.Len, want)
						}
					}
				}
				done[ev.Ordinal] = len(frames)
			}
			if ci == 0 {
				recs, _, _ := verifnet.ParseControl(bufs[-1], false)
				for _, r := range recs {
					if r.Type == verifnet.WResumeInfo {
						s := get(r.StreamID)
						s.reported, s.reportedTot = r.Bitmap, r.Total
					}
				}
			}
		}
		desc := fmt.Sprintf("prior marks %v damaged %v late-report=%v | case: %s", ps.Marked, damaged, late, x)
		keys := make([]uint64, 0, len(byKey))
		for k := range byKey {
			keys = append(keys, k)
		}
		sort.Slice(keys, func(a, b int) bool { return byKey[keys[a]] < byKey[keys[b]] })
		resent := false
		for _, k := range keys {
			it := items[byKey[k]]
			s := get(k)
			n := uint32((int(it.Size) + x.Chunk - 1) / x.Chunk)
			name := it.RelPath
			if s.begins != 1 {
				rec.Fail(rt, "file-not-begun-exactly-once", fmt.Sprintf("%q: %d FileBegin records on the wire | %s", name, s.begins, desc))
				return
			}
			if s.ends != 1 {
				rec.Fail(rt, "fileend-not-exactly-once", fmt.Sprintf("%q: %d FileEnd records on the wire | %s", name, s.ends, desc))
				return
			}
			if s.badLen != "" {
				rec.Fail(rt, "frame-length", fmt.Sprintf("%q: %s | %s", name, s.badLen, desc))
				return
			}
			verified := int64(-1)
			for i := uint32(0); i < n; i++ {
				if c17Bit(s.reported, i) {
					verified = int64(i)
				}
			}
			total := 0
			for i := uint32(0); i < n; i++ {
				c := s.frames[i]
				total += c
				switch {
				case !c17Bit(s.reported, i) && c != 1:
					rec.Fail(rt, "needed-chunk-not-exactly-once", fmt.Sprintf("%q: chunk %d of %d (not reported as present) is in %d frames | %s", name, i, n, c, desc))
					return
				case int64(i) == verified && c > 2:
					rec.Fail(rt, "resend-more-than-once", fmt.Sprintf("%q: the verified chunk %d is in %d frames | %s", name, i, c, desc))
					return
				case c17Bit(s.reported, i) && int64(i) != verified && c > 1:
					rec.Fail(rt, "present-chunk-sent-twice", fmt.Sprintf("%q: chunk %d (reported as present) is in %d frames | %s", name, i, c, desc))
					return
				}
				if int64(i) == verified && c == 2 {
					resent = true
				}
			}
			for idx, c := range s.frames {
				if idx >= n && c > 0 {
					rec.Fail(rt, "frame-beyond-end", fmt.Sprintf("%q: frame for chunk %d of a file with %d chunks | %s", name, idx, n, desc))
					return
				}
			}
			if s.endFrames != 0 && int(s.endFrames) != total {
				rec.Fail(rt, "fileend-frame-count", fmt.Sprintf("%q: FileEnd announces %d frames, %d are on the wire | %s", name, s.endFrames, total, desc))
				return
			}
			if x.Conns == 1 && total > 0 && s.lastFrameSeq > s.endSeq {
				rec.Fail(rt, "chunk-after-fileend", fmt.Sprintf("%q: a chunk frame was written after the file's FileEnd | %s", name, desc))
				return
			}
		}
		if resent {
			rec.Class("verified-chunk-sent-twice")
		}
		if len(ps.Marked) > 0 {
			rec.Class("resume-report-with-marks")
			rec.NonTrivial(fmt.Sprintf("%v|%v|%s", ps.Marked, damaged, x.fingerprint()))
		} else if x.Streams > 1 && maxChunksOf(x) >= 2 {
			rec.NonTrivial(x.fingerprint())
		}
		if rec.SampleWanted() {
			rec.Sample(desc)
		}
	})
}
