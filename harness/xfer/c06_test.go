package verifxfer

import (
	"fmt"
	"hash/fnv"
	"os"
	"path/filepath"
	"strings"
	"testing"
	"time"

	"github.com/sheerbytes/sheerbytes/internal/transfer"
	"github.com/sheerbytes/sheerbytes/internal/verifkit"
	"github.com/sheerbytes/sheerbytes/internal/verifnet"
	"github.com/sheerbytes/sheerbytes/pkg/manifest"
	"pgregory.net/rapid"
)

// ---- C06 (transfer layer): stale, foreign or damaged resume state is never trusted ----

// priorState describes what an earlier, interrupted run left in the output directory.
type priorState struct {
	Marked map[string][]int // rel path (manifest) -> chunk indices marked complete and present on disk
}

// baseDirOf returns the directory in which the receiver places files and metadata.
func (p *prepared) baseDirOf() string {
	if p.x.NoRootDir {
		return p.out
	}
	return filepath.Join(p.out, p.m.Root)
}

func (p *prepared) fileItems() []manifest.FileItem {
	var out []manifest.FileItem
	for _, it := range p.m.Items {
		if !it.IsDir {
			out = append(out, it)
		}
	}
	return out
}

// sourceBytes returns the content the sender will read for a manifest item.
func (p *prepared) sourceBytes(it manifest.FileItem) []byte {
	path := filepath.Join(p.rootPath, filepath.FromSlash(it.RelPath))
	if p.resolve != nil {
		if r := p.resolve(it.RelPath); r != "" {
			path = r
		}
	}
	b, _ := os.ReadFile(path)
	return b
}

// installPrior writes partial output files and matching sidecars, as an interrupted run would have left them.
func (p *prepared) installPrior(ps priorState, fill byte) error {
	return p.installPriorChunk(ps, fill, p.x.Chunk)
}

// installPriorChunk leaves the state of an earlier attempt that used chunk size c: data
// files holding the marked chunks (other bytes = fill) and metadata marking them.
func (p *prepared) installPriorChunk(ps priorState, fill byte, c int) error {
	base := p.baseDirOf()
	for _, it := range p.fileItems() {
		marked, ok := ps.Marked[it.RelPath]
		if !ok {
			continue
		}
		src := p.sourceBytes(it)
		out := make([]byte, len(src))
		for i := range out {
			out[i] = fill
		}
		for _, idx := range marked {
			lo, hi := idx*c, (idx+1)*c
			if hi > len(src) {
				hi = len(src)
			}
			if lo >= hi {
				continue
			}
			copy(out[lo:hi], src[lo:hi])
		}
		fp := filepath.Join(base, filepath.FromSlash(it.RelPath))
		if err := os.MkdirAll(filepath.Dir(fp), 0755); err != nil {
			return err
		}
		if err := os.WriteFile(fp, out, 0644); err != nil {
			return err
		}
		sp := transfer.SidecarPath(base, "", it.ID)
		os.Remove(sp)
		sc, err := transfer.CreateSidecar(sp, it.ID, it.Size, uint32(c))
		if err != nil {
			return err
		}
		for _, idx := range marked {
			sc.MarkComplete(uint32(idx))
		}
		if err := sc.Flush(); err != nil {
			return err
		}
	}
	return nil
}

type c06Tamper struct {
	Kind    string
	File    int
	Pos     float64
	Bit     uint
	Delay   int // ms of delay of the sender's verification hash
	NewSize int // for data-shortened: new length selector
}

var c06Kinds = []string{"none", "sc-truncate", "sc-bitflip", "sc-garbage", "sc-foreign-id", "sc-foreign-size", "sc-foreign-chunk",
	"data-deleted", "data-shortened", "data-shortened", "highest-damaged", "highest-damaged", "lower-damaged", "chunk-size-changed"}

// c06Apply applies the tamper; returns a description and whether it changed anything.
func c06Apply(p *prepared, ps priorState, tm c06Tamper) (string, bool) {
	items := p.fileItems()
	var cands []manifest.FileItem
	for _, it := range items {
		if len(ps.Marked[it.RelPath]) > 0 {
			cands = append(cands, it)
		}
	}
	if len(cands) == 0 {
		return "", false
	}
	it := cands[tm.File%len(cands)]
	base := p.baseDirOf()
	sp := transfer.SidecarPath(base, "", it.ID)
	fp := filepath.Join(base, filepath.FromSlash(it.RelPath))
	c := p.x.Chunk
	marked := ps.Marked[it.RelPath]
	highest := marked[len(marked)-1]
	switch tm.Kind {
	case "none":
		return "plain resume", true
	case "sc-truncate":
		data, _ := os.ReadFile(sp)
		cut := int(tm.Pos * float64(len(data)))
		return fmt.Sprintf("sidecar of %s truncated to %d/%d", it.RelPath, cut, len(data)), os.WriteFile(sp, data[:cut], 0644) == nil
	case "sc-bitflip":
		data, _ := os.ReadFile(sp)
		if len(data) == 0 {
			return "", false
		}
		pos := int(tm.Pos * float64(len(data)))
		if pos >= len(data) {
			pos = len(data) - 1
		}
		data[pos] ^= 1 << (tm.Bit % 8)
		return fmt.Sprintf("sidecar of %s byte %d bit %d flipped", it.RelPath, pos, tm.Bit%8), os.WriteFile(sp, data, 0644) == nil
	case "sc-garbage":
		return "sidecar replaced by garbage", os.WriteFile(sp, verifkit.Content(uint64(tm.File)+7, 10+int(tm.Pos*100)), 0644) == nil
	case "sc-foreign-id", "sc-foreign-size", "sc-foreign-chunk":
		// a sidecar that claims every chunk, left over from a different file
		id, size, chunk := it.ID, it.Size, uint32(c)
		switch tm.Kind {
		case "sc-foreign-id":
			id = "ffffffffffffffff"
		case "sc-foreign-size":
			size = it.Size + int64(1+tm.File%3)
		case "sc-foreign-chunk":
			chunk = uint32(c + 1 + tm.File%3)
		}
		os.Remove(sp)
		sc, err := transfer.CreateSidecar(sp, id, size, chunk)
		if err != nil {
			return "", false
		}
		for i := uint32(0); i < sc.TotalChunks; i++ {
			sc.MarkComplete(i)
		}
		return fmt.Sprintf("%s for %s (id=%s size=%d chunk=%d, all chunks marked)", tm.Kind, it.RelPath, id, size, chunk), sc.Flush() == nil
	case "data-deleted":
		return "data file " + it.RelPath + " deleted, sidecar kept", os.Remove(fp) == nil
	case "data-shortened":
		// new length: a chunk boundary or an arbitrary position below the highest marked chunk's end
		limit := (highest + 1) * c
		if limit > int(it.Size) {
			limit = int(it.Size)
		}
		n := int(tm.Pos * float64(limit))
		if tm.NewSize%2 == 0 {
			n = (n / c) * c
		}
		if n >= int(it.Size) {
			n = int(it.Size) - 1
		}
		if n < 0 {
			n = 0
		}
		return fmt.Sprintf("data file %s shortened %d -> %d, sidecar kept (marked %v)", it.RelPath, it.Size, n, marked), os.Truncate(fp, int64(n)) == nil
	case "highest-damaged", "lower-damaged":
		idx := highest
		if tm.Kind == "lower-damaged" {
			if len(marked) < 2 {
				return "", false
			}
			idx = marked[int(tm.Pos*float64(len(marked)-1))]
		}
		lo, hi := idx*c, (idx+1)*c
		if hi > int(it.Size) {
			hi = int(it.Size)
		}
		if hi <= lo {
			return "", false
		}
		f, err := os.OpenFile(fp, os.O_RDWR, 0644)
		if err != nil {
			return "", false
		}
		defer f.Close()
		buf := make([]byte, hi-lo)
		f.ReadAt(buf, int64(lo))
		if tm.Bit%2 == 0 { // torn: zero tail from a drawn position
			from := int(tm.Pos * float64(len(buf)))
			if from >= len(buf) {
				from = len(buf) - 1
			}
			changed := false
			for i := from; i < len(buf); i++ {
				if buf[i] != 0 {
					changed = true
				}
				buf[i] = 0
			}
			if !changed {
				buf[len(buf)-1] ^= 0x5a
			}
		} else {
			pos := int(tm.Pos * float64(len(buf)))
			if pos >= len(buf) {
				pos = len(buf) - 1
			}
			buf[pos] ^= 1 << (tm.Bit % 8)
		}
		_, err = f.WriteAt(buf, int64(lo))
		return fmt.Sprintf("%s: chunk %d of %s damaged on disk (marked %v)", tm.Kind, idx, it.RelPath, marked), err == nil
	case "chunk-size-changed":
		return "second run uses another chunk size", true
	}
	return "", false
}

// c06RepairOnWire reports whether the sender put a frame for the damaged chunk on a data stream.
func c06RepairOnWire(p *prepared, ps priorState, tm c06Tamper, tap *verifkit.Tap) bool {
	var cands []manifest.FileItem
	for _, it := range p.fileItems() {
		if len(ps.Marked[it.RelPath]) > 0 {
			cands = append(cands, it)
		}
	}
	if len(cands) == 0 {
		return false
	}
	it := cands[tm.File%len(cands)]
	marked := ps.Marked[it.RelPath]
	idx := uint32(marked[len(marked)-1])
	h := fnv.New64a()
	if it.ID != "" {
		h.Write([]byte(it.ID))
	} else {
		h.Write([]byte(it.RelPath))
	}
	key := h.Sum64()
	for k := range tap.Counts() {
		if k[1] != int(verifkit.AtoB) || k[0] == 0 {
			continue
		}
		for _, fr := range verifnet.ParseData(tap.StreamBytes(k[0], verifkit.AtoB)) {
			if fr.Key == key && fr.Index == idx {
				return true
			}
		}
	}
	return false
}

func TestVerifC06Transfer(t *testing.T) {
	rec := verifkit.NewRecorder("C06", "transfer")
	defer rec.Flush()
	rapid.Check(t, func(rt *rapid.T) {
		x := xcase{Chunk: rapid.OneOf(rapid.IntRange(1, 40), rapid.SampledFrom([]int{7, 16, 64, 512})).Draw(rt, "chunk")}
		x.Tree = verifnet.GenTree(rt, x.Chunk, verifnet.GenOpts{MaxFiles: 3, MinFiles: 1, MaxChunks: 10})
		x.Streams = rapid.IntRange(1, 4).Draw(rt, "streams")
		x.Conns = 1
		x.SendResume, x.RecvResume = true, true
		x.NoRootDir = rapid.IntRange(0, 3).Draw(rt, "rootdir") != 0
		x.Mode = rapid.SampledFrom([]string{"scan", "paths"}).Draw(rt, "mode")
		x.QUICVis = rapid.Bool().Draw(rt, "quicvis")
		x.HashAlg = rapid.SampledFrom([]string{"", "crc32c", "xxhash64", "none"}).Draw(rt, "hash")
		tm := c06Tamper{Kind: rapid.SampledFrom(c06Kinds).Draw(rt, "tamper"), File: rapid.IntRange(0, 5).Draw(rt, "tfile"), Pos: frac(rt, "tpos"),
			Bit: uint(rapid.IntRange(0, 7).Draw(rt, "tbit")), Delay: rapid.SampledFrom([]int{0, 0, 1, 5, 20}).Draw(rt, "hash_delay"), NewSize: rapid.IntRange(0, 3).Draw(rt, "tnew")}
		dir := caseDir("c06")
		defer os.RemoveAll(dir)
		p, err := prepare(x, dir)
		if err != nil {
			rec.Class("not-prepared")
			return
		}
		ps := priorState{Marked: map[string][]int{}}
		multi := false
		for i, it := range p.fileItems() {
			total := (int(it.Size) + x.Chunk - 1) / x.Chunk
			if total == 0 {
				continue
			}
			bits := rapid.SliceOfN(rapid.Bool(), total, total).Draw(rt, fmt.Sprintf("marked%d", i))
			var marked []int
			for j, b := range bits {
				if b {
					marked = append(marked, j)
				}
			}
			if len(marked) > 0 {
				ps.Marked[it.RelPath] = marked
				if len(marked) >= 2 && len(marked) < total {
					multi = true
				}
			}
		}
		fill := byte(rapid.SampledFrom([]int{0, 0xEE}).Draw(rt, "fill"))
		if tm.Kind == "chunk-size-changed" {
			// the prior state was produced with another chunk size than this run uses
			old := p.x.Chunk
			p.x.Chunk = old + 1 + tm.File%3
			err = p.installPrior(ps, fill)
			p.x.Chunk = old
		} else {
			err = p.installPrior(ps, fill)
		}
		if err != nil {
			rt.Fatalf("install prior state: %v", err)
		}
		desc, applied := c06Apply(p, ps, tm)
		if !applied {
			rec.Class("tamper-not-applicable/" + tm.Kind)
			return
		}
		if x.NoRootDir && p.m.Root != "" && rapid.IntRange(0, 3).Draw(rt, "metadata_below_root") == 2 {
			// the earlier attempt ran in root-directory mode: its metadata lies in
			// <out>/<root>/.thruflux_resumedata, which this run consults as a fallback
			moved := 0
			for _, it := range p.fileItems() {
				from := transfer.SidecarPath(p.baseDirOf(), "", it.ID)
				to := transfer.SidecarPath(filepath.Join(p.out, p.m.Root), "", it.ID)
				if _, err := os.Stat(from); err == nil && os.MkdirAll(filepath.Dir(to), 0755) == nil && os.Rename(from, to) == nil {
					moved++
				}
			}
			if moved > 0 {
				rec.Class("metadata-below-the-manifest-root")
				desc += " [metadata moved below the manifest root]"
			}
		}
		var plan []perturb
		if tm.Delay > 0 {
			plan = append(plan, perturb{Site: "send.verify.hash.before", Hit: 1, Delay: time.Duration(tm.Delay) * time.Millisecond})
		}
		tap := &verifkit.Tap{}
		pair, err := p.newPair(func(int) verifkit.MemOptions {
			return verifkit.MemOptions{QUICVisibility: x.QUICVis, Window: x.Window, Tap: tap}
		})
		if err != nil {
			rt.Fatalf("pair: %v", err)
		}
		remove := installPerturb(plan, nil)
		res := p.run(pair, 30*time.Second, 5*time.Second)
		remove()
		pair.Close()
		if x.NoRootDir && p.m.Root != "" {
			// the metadata directory below the manifest root (placed there by this harness) is not
			// part of the received tree: take it, and the then empty root directory, away
			below := filepath.Join(p.out, p.m.Root)
			os.RemoveAll(filepath.Join(below, verifnet.ResumeDirName))
			os.Remove(below) // fails, as it should, when the receiver put anything there
		}
		rec.Eval()
		rec.Class("tamper/" + tm.Kind)
		detail := fmt.Sprintf("tamper: %s | hash-delay=%dms | prior marks: %v | case: %s | %s", desc, tm.Delay, ps.Marked, x, res)
		switch {
		case res.Hung:
			kind := res.HangKind
			if kind == "recv-reader-waiting-for-unknown-file" {
				kind = "late-resend-after-finalize"
			}
			if rec.Fail(rt, "hang:"+kind, detail+"\n"+verifnet.TrimDump(res.Dump)) {
				return
			}
		case res.BothOK():
			if diff := p.checkTree(); diff != "" {
				if tm.Kind == "lower-damaged" {
					rec.Class("negative-control/lower-chunk-damage-undetected")
					return
				}
				if tm.Kind == "highest-damaged" && x.HashAlg == "none" {
					rec.Class("negative-control/hashing-disabled")
					return
				}
				sig := "resume-skipped-data:" + tm.Kind
				if tm.Kind == "highest-damaged" {
					// the known defect loses a repair chunk that WAS sent (it arrives after the
					// receiver finalized the file); a sender that never re-sends it is something else
					sig = "torn-chunk-never-resent"
					if c06RepairOnWire(p, ps, tm, tap) {
						sig = "torn-chunk-not-repaired"
					}
				}
				if rec.Fail(rt, sig, "both sides reported success but "+diff+" | "+detail) {
					return
				}
			}
			rec.Class("outcome/identical")
		default:
			// failing loudly is allowed, except for the torn last chunk, which must be repaired
			if tm.Kind == "highest-damaged" && x.HashAlg != "none" {
				if rec.Fail(rt, "torn-chunk-resume-failed", detail) {
					return
				}
			}
			if tm.Kind == "none" {
				if rec.Fail(rt, "plain-resume-failed:"+errClass(fmt.Sprint(res.SendErr, res.RecvErr)), detail) {
					return
				}
			}
			rec.Class("outcome/failed-loudly")
		}
		if multi {
			rec.NonTrivial(tm.Kind + fmt.Sprintf("/%.1f/%d/%d|", tm.Pos, tm.Delay, tm.Bit%2) + x.fingerprint() + fmt.Sprint(ps.Marked))
		}
		if rec.SampleWanted() {
			rec.Sample(map[string]any{"tamper": desc, "case": x.String(), "prior_marks": fmt.Sprint(ps.Marked), "outcome": strings.TrimSpace(res.String())})
		}
	})
}
