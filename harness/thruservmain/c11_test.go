package main

import (
	"bytes"
	"errors"
	"fmt"
	"net"
	"net/http"
	"net/http/httptest"
	"strings"
	"sync"
	"sync/atomic"
	"testing"
	"time"

	"github.com/gorilla/websocket"
	"github.com/sheerbytes/sheerbytes/internal/logging"
	"github.com/sheerbytes/sheerbytes/internal/peers"
	"github.com/sheerbytes/sheerbytes/internal/session"
	"github.com/sheerbytes/sheerbytes/internal/verifkit"
	"github.com/sheerbytes/sheerbytes/pkg/protocol"
	_ "pgregory.net/rapid" // registers the -rapid.* flags the driver passes to every unit
)

// ---- C11 (connection handler): a peer whose connection dies at any point of its handler's
// life has left ---------------------------------------------------------------------------
//
// The hub-level units decide the interleavings of Add / remove / ...; this unit decides that
// the server's connection handler calls them on every way out. The real handleWebSocket
// runs behind an httptest server whose listener hands out connections that fail at an
// enumerated point after the upgrade response: the w-th write (w = 1..6) or the r-th read
// (r = 1..4) returns an error, for a sender or a receiver, alone or next to another peer of the
// session. Oracle once the handler has returned: the peer is not listed, not routable, and a
// later joiner's peer list does not name it; the handler returns within 10 s.

type c11FaultConn struct {
	net.Conn
	failWrite, failRead int32 // 0 = never; n = the n-th call after the upgrade fails
	upgraded            atomic.Bool
	writes, reads       atomic.Int32
}

func (c *c11FaultConn) Write(p []byte) (int, error) {
	if c.upgraded.Load() && c.failWrite > 0 && c.writes.Add(1) >= c.failWrite {
		return 0, errors.New("write: connection reset by peer (injected)")
	}
	n, err := c.Conn.Write(p)
	if bytes.Contains(p, []byte("101 Switching Protocols")) {
		c.upgraded.Store(true)
	}
	return n, err
}

func (c *c11FaultConn) Read(p []byte) (int, error) {
	if c.upgraded.Load() && c.failRead > 0 && c.reads.Add(1) >= c.failRead {
		return 0, errors.New("read: connection reset by peer (injected)")
	}
	return c.Conn.Read(p)
}

type c11Listener struct {
	net.Listener
	mu   sync.Mutex
	next *c11FaultConn // template for the next accepted connection (nil: healthy)
}

func (l *c11Listener) Accept() (net.Conn, error) {
	c, err := l.Listener.Accept()
	if err != nil {
		return nil, err
	}
	l.mu.Lock()
	t := l.next
	l.next = nil
	l.mu.Unlock()
	if t == nil {
		return c, nil
	}
	return &c11FaultConn{Conn: c, failWrite: t.failWrite, failRead: t.failRead}, nil
}

func TestVerifC11Handler(t *testing.T) {
	rec := verifkit.NewRecorder("C11", "handler")
	defer rec.Flush()
	if sh, _ := verifkit.Shard(); sh != 0 {
		return
	}
	logger := logging.New("thruserv-verif", "error")
	type fault struct{ w, r int32 }
	var faults []fault
	for w := int32(1); w <= 6; w++ {
		faults = append(faults, fault{w: w})
	}
	for r := int32(1); r <= 4; r++ {
		faults = append(faults, fault{r: r})
	}
	for _, role := range []string{"receiver", "sender"} {
		for _, withOther := range []bool{false, true} {
			for _, f := range faults {
				desc := fmt.Sprintf("a %s whose connection fails at write %d / read %d after the upgrade, other peer present: %v", role, f.w, f.r, withOther)
				store := session.NewStore(0)
				hub := peers.NewHub()
				expiry := newSessionExpiryManager()
				sess := store.Create()
				done := make(chan string, 16)
				mux := http.NewServeMux()
				mux.HandleFunc("/ws", func(w http.ResponseWriter, r *http.Request) {
					handleWebSocket(w, r, store, hub, expiry, logger, serverLimits{}, nil)
					done <- r.URL.Query().Get("peer_id")
				})
				srv := httptest.NewUnstartedServer(mux)
				ln := &c11Listener{Listener: srv.Listener}
				srv.Listener = ln
				srv.Start()
				wsURL := "ws" + strings.TrimPrefix(srv.URL, "http") + "/ws?join_code=" + sess.JoinCode
				var other *websocket.Conn
				otherRole := "sender"
				if role == "sender" {
					otherRole = "receiver"
				}
				if withOther {
					c, _, err := websocket.DefaultDialer.Dial(wsURL+"&peer_id=other&role="+otherRole, nil)
					if err != nil {
						srv.Close()
						rec.Class("not-run-dial")
						continue
					}
					other = c
					go func() {
						for {
							if _, _, err := c.ReadMessage(); err != nil {
								return
							}
						}
					}()
				}
				ln.mu.Lock()
				ln.next = &c11FaultConn{failWrite: f.w, failRead: f.r}
				ln.mu.Unlock()
				victim, _, err := websocket.DefaultDialer.Dial(wsURL+"&peer_id=victim&role="+role, nil)
				if err == nil {
					// a few messages, so that later write and read ordinals are reached
					go func() {
						for i := 0; i < 6; i++ {
							env, _ := protocol.NewEnvelope("x-verif", protocol.NewMsgID(), map[string]int{"i": i})
							if victim.WriteJSON(env) != nil {
								return
							}
							time.Sleep(5 * time.Millisecond)
						}
					}()
					go func() {
						for {
							if _, _, err := victim.ReadMessage(); err != nil {
								return
							}
						}
					}()
				}
				if withOther && other != nil {
					// traffic towards the victim makes its handler write
					go func() {
						for i := 0; i < 6; i++ {
							env, _ := protocol.NewEnvelope("x-verif", protocol.NewMsgID(), map[string]int{"i": i})
							env.To = "victim"
							other.WriteJSON(env)
							time.Sleep(5 * time.Millisecond)
						}
					}()
				}
				returned, reached := false, true
				waitVictim := func(d time.Duration) {
					deadline := time.After(d)
					for {
						select {
						case id := <-done:
							if id == "victim" {
								returned = true
								return
							}
						case <-deadline:
							return
						}
					}
				}
				waitVictim(600 * time.Millisecond)
				if !returned {
					// the fault point was not reached (the handler wrote or read less often than the
					// ordinal): the peer leaves in the ordinary way instead - the same must hold
					reached = false
					if victim != nil {
						victim.Close()
					}
					waitVictim(10 * time.Second)
				}
				rec.Eval()
				if reached {
					rec.Class("fault-point-reached")
				} else {
					rec.Class("ordinary-close")
				}
				fail := func(sig, detail string) {
					if victim != nil {
						victim.Close()
					}
					if other != nil {
						other.Close()
					}
					srv.Close()
					rec.Fail(t, sig, detail+" | "+desc)
				}
				if !returned {
					fail("handler-does-not-return", "the connection is gone and its handler is still running after 10 s")
					return
				}
				for _, p := range hub.List(sess.ID) {
					if p.PeerID == "victim" {
						fail("left-peer-still-listed", "the handler of the dead connection has returned, the peer is still listed")
						return
					}
				}
				env, _ := protocol.NewEnvelope("x-verif", protocol.NewMsgID(), map[string]int{"i": -1})
				if hub.SendTo(sess.ID, "victim", env) {
					fail("left-peer-still-routable", "the handler of the dead connection has returned, SendTo still reports the peer routable")
					return
				}
				// a later joiner (the session is gone if its sender left: then there is nobody to tell)
				if role == "receiver" {
					j, _, err := websocket.DefaultDialer.Dial(wsURL+"&peer_id=later&role=receiver", nil)
					if err == nil {
						j.SetReadDeadline(time.Now().Add(3 * time.Second))
						var first protocol.Envelope
						if j.ReadJSON(&first) == nil && first.Type == protocol.TypePeerList {
							var pl protocol.PeerList
							first.DecodePayload(&pl)
							for _, p := range pl.Peers {
								if p.PeerID == "victim" {
									j.Close()
									fail("left-peer-still-listed", fmt.Sprintf("a later joiner is told about the departed peer: %+v", pl.Peers))
									return
								}
							}
						}
						j.Close()
					}
				}
				if reached {
					rec.NonTrivial(desc)
				}
				if rec.SampleWanted() {
					rec.Sample(map[string]any{"case": desc})
				}
				if victim != nil {
					victim.Close()
				}
				if other != nil {
					other.Close()
				}
				srv.Close()
			}
		}
	}
}
