package peers

import (
	"fmt"
	"sort"
	"strings"
	"sync"
	"testing"
	"time"

	"github.com/sheerbytes/sheerbytes/internal/verifhook"
	"github.com/sheerbytes/sheerbytes/internal/verifkit"
	"github.com/sheerbytes/sheerbytes/pkg/protocol"
	"pgregory.net/rapid"
)

// ---- C11: the hub under controlled schedules ------------------------------------------
//
// A case is a small concurrent program plus a schedule. Worker goroutines yield to a
// controller before every operation and at every verifhook point of the hub (all of which
// lie outside h.mu), and the controller releases exactly one worker at a time, so an
// execution is a deterministic function of the sequence of choices "which worker next".

type c11Op struct {
	Kind    string // add | remove | close | list | broadcast | bexcept | sendto
	Session string
	Peer    string
	Target  int // remove: index of the add (in the same worker) whose remove func is called
}

func (o c11Op) String() string {
	switch o.Kind {
	case "remove":
		return fmt.Sprintf("remove(add#%d)", o.Target)
	case "close", "list", "broadcast":
		return fmt.Sprintf("%s(%s)", o.Kind, o.Session)
	}
	return fmt.Sprintf("%s(%s,%s)", o.Kind, o.Session, o.Peer)
}

type c11Program [][]c11Op

func (p c11Program) String() string {
	var parts []string
	for i, w := range p {
		var ops []string
		for _, o := range w {
			ops = append(ops, o.String())
		}
		parts = append(parts, fmt.Sprintf("w%d:[%s]", i, strings.Join(ops, " ")))
	}
	return strings.Join(parts, " ")
}

type c11Event struct {
	Worker int
	Op     int
	Phase  string // start | end | hook site
}

type c11Conn struct {
	id      string
	session string
	peer    string
	worker  int
	addOp   int
	// positions in the event trace
	addStart, addEnd       int
	removeStart, removeEnd int
	remove                 func()
}

type c11Run struct {
	prog     c11Program
	hub      *Hub
	trace    []c11Event
	choices  []int // branching factor at each decision
	taken    []int
	conns    []*c11Conn
	panics   []string
	deadlock bool
	closes   [][3]int // session close ops: (start pos, end pos) + index of session
	closeSes []string
	overlap  map[string]int
}

type c11Worker struct {
	id      int
	wake    chan struct{}
	parked  chan string // worker -> controller: "parked at <phase>" or "done"
	curOp   int
	removes map[int]func()
}

// c11Execute runs the program under the given schedule prefix (choices beyond the prefix default to 0).
func c11Execute(prog c11Program, prefix []int) *c11Run {
	run := &c11Run{prog: prog, hub: NewHub(), overlap: map[string]int{}}
	workers := make([]*c11Worker, len(prog))
	var current *c11Worker
	var mu sync.Mutex // protects run.trace / current (only one worker runs at a time, the mutex is for the race detector)
	connSeq := 0
	yield := func(w *c11Worker, phase string) {
		w.parked <- phase
		<-w.wake
	}
	verifhook.Set(func(name, detail string, n int64) {
		mu.Lock()
		w := current
		mu.Unlock()
		if w == nil || !strings.HasPrefix(name, "hub.") {
			return
		}
		if strings.HasSuffix(name, ".copied") {
			// Only a point outside the hub lock is a preemption point. Parked workers never hold
			// the lock, so if it is taken here the running worker itself holds it (read lock
			// kept across the sends): nobody could interleave, do not park.
			if !run.hub.mu.TryLock() {
				return
			}
			run.hub.mu.Unlock()
		}
		yield(w, name)
	})
	defer verifhook.Set(nil)
	send := func(env protocol.Envelope) error { return nil }
	for i := range prog {
		w := &c11Worker{id: i, wake: make(chan struct{}), parked: make(chan string), removes: map[int]func(){}}
		workers[i] = w
		go func(w *c11Worker) {
			defer func() {
				if r := recover(); r != nil {
					mu.Lock()
					run.panics = append(run.panics, fmt.Sprintf("worker %d op %d %s: %v", w.id, w.curOp, prog[w.id][w.curOp], r))
					mu.Unlock()
				}
				w.parked <- "done"
			}()
			<-w.wake
			for oi, op := range prog[w.id] {
				w.curOp = oi
				yield(w, "start")
				switch op.Kind {
				case "add":
					mu.Lock()
					connSeq++
					c := &c11Conn{id: fmt.Sprintf("c%d", connSeq), session: op.Session, peer: op.Peer, worker: w.id, addOp: oi, addStart: len(run.trace), addEnd: -1, removeStart: -1, removeEnd: -1}
					run.conns = append(run.conns, c)
					mu.Unlock()
					rm := run.hub.Add(op.Session, Peer{PeerID: op.Peer, Role: c.id, ConnID: c.id}, send, func() {})
					mu.Lock()
					c.addEnd = len(run.trace)
					c.remove = rm
					mu.Unlock()
					w.removes[oi] = rm
				case "remove":
					if rm := w.removes[op.Target]; rm != nil {
						var c *c11Conn
						mu.Lock()
						for _, cc := range run.conns {
							if cc.worker == w.id && cc.addOp == op.Target {
								c = cc
							}
						}
						if c != nil {
							c.removeStart = len(run.trace)
						}
						mu.Unlock()
						rm()
						mu.Lock()
						if c != nil {
							c.removeEnd = len(run.trace)
						}
						mu.Unlock()
					}
				case "close":
					mu.Lock()
					idx := len(run.closes)
					run.closes = append(run.closes, [3]int{len(run.trace), -1, 0})
					run.closeSes = append(run.closeSes, op.Session)
					mu.Unlock()
					run.hub.CloseSession(op.Session)
					mu.Lock()
					run.closes[idx][1] = len(run.trace)
					mu.Unlock()
				case "list":
					run.hub.List(op.Session)
				case "broadcast":
					run.hub.Broadcast(op.Session, protocol.Envelope{Type: "x"})
				case "bexcept":
					run.hub.BroadcastExcept(op.Session, op.Peer, protocol.Envelope{Type: "x"})
				case "sendto":
					run.hub.SendTo(op.Session, op.Peer, protocol.Envelope{Type: "x"})
				}
			}
		}(w)
	}
	// controller
	state := make([]string, len(prog)) // "" not started/parked phase, "done"
	parkedAt := make([]string, len(prog))
	for i := range parkedAt {
		parkedAt[i] = "init"
	}
	decision := 0
	for {
		var ready []int
		for i := range workers {
			if state[i] != "done" {
				ready = append(ready, i)
			}
		}
		if len(ready) == 0 {
			break
		}
		pick := 0
		if len(ready) > 1 {
			if decision < len(prefix) {
				pick = prefix[decision]
				if pick >= len(ready) {
					pick = len(ready) - 1
				}
			}
			run.choices = append(run.choices, len(ready))
			run.taken = append(run.taken, pick)
			decision++
		}
		wi := ready[pick]
		w := workers[wi]
		// overlap bookkeeping: another worker is parked between the phases of an operation
		for _, o := range ready {
			if o != wi && strings.HasPrefix(parkedAt[o], "hub.") {
				run.overlap[parkedAt[o]]++
			}
		}
		mu.Lock()
		current = w
		mu.Unlock()
		w.wake <- struct{}{}
		select {
		case ph := <-w.parked:
			mu.Lock()
			current = nil
			if ph == "done" {
				state[wi] = "done"
			} else {
				parkedAt[wi] = ph
				run.trace = append(run.trace, c11Event{Worker: wi, Op: w.curOp, Phase: ph})
			}
			mu.Unlock()
		case <-time.After(5 * time.Second):
			run.deadlock = true
			return run
		}
	}
	return run
}

// c11Check applies the oracle to a finished run; returns signature and detail.
func c11Check(run *c11Run) (string, string) {
	if len(run.panics) > 0 {
		sig := "panic"
		if strings.Contains(run.panics[0], "send on closed channel") {
			sig = "panic-send-on-closed-channel"
		}
		return sig, run.panics[0]
	}
	if run.deadlock {
		return "deadlock", "a released worker neither reached its next yield point nor finished within 5 s"
	}
	h := run.hub
	sessions := map[string]bool{}
	for _, c := range run.conns {
		sessions[c.session] = true
	}
	for s := range sessions {
		list := h.List(s)
		listed := map[string]bool{}
		for _, pi := range list {
			listed[pi.Role] = true // Role carries the connection id
		}
		mayRemain := false
		for _, c := range run.conns {
			if c.session != s {
				continue
			}
			if c.addEnd < 0 {
				continue
			}
			replacedOrClosed := false
			for _, o := range run.conns {
				if o != c && o.session == s && o.peer == c.peer && (o.addEnd < 0 || o.addEnd > c.addStart) && o.addStart >= 0 {
					// another add of the same peer id overlapping or after this one: last-write-wins may have removed either
					replacedOrClosed = true
				}
			}
			for i, cl := range run.closes {
				if run.closeSes[i] == s && (cl[1] < 0 || cl[1] > c.addStart) {
					replacedOrClosed = true
				}
			}
			removed := c.removeStart >= 0
			removeDone := c.removeEnd >= 0
			if !replacedOrClosed && !removed {
				// connected and never touched: must be listed and routable
				mayRemain = true
				if !listed[c.id] {
					return "connected-peer-not-listed", fmt.Sprintf("connection %s (peer %s, session %s) was added and never removed, replaced or closed, but List does not contain it (listed: %v)", c.id, c.peer, s, list)
				}
				if !h.SendTo(s, c.peer, protocol.Envelope{Type: "probe"}) {
					return "connected-peer-not-routable", fmt.Sprintf("connection %s (peer %s, session %s) is connected but SendTo reports the peer unknown", c.id, c.peer, s)
				}
			} else if !removeDone {
				// replaced/closed/being removed: may or may not be present
				if !removed {
					mayRemain = true
				}
			}
			if removeDone && listed[c.id] {
				return "left-peer-still-listed", fmt.Sprintf("connection %s (peer %s, session %s): remove returned but the peer is still listed", c.id, c.peer, s)
			}
		}
		if !mayRemain {
			h.mu.RLock()
			_, a := h.sessions[s]
			_, b := h.byPeerID[s]
			h.mu.RUnlock()
			if a || b {
				return "routing-state-leak", fmt.Sprintf("every connection of session %s has left, but the hub still holds state for it (sessions entry: %v, byPeerID entry: %v)", s, a, b)
			}
		}
	}
	return "", ""
}

func (run *c11Run) describe() string {
	var ev []string
	for _, e := range run.trace {
		ev = append(ev, fmt.Sprintf("w%d.%d@%s", e.Worker, e.Op, strings.TrimPrefix(e.Phase, "hub.")))
	}
	return fmt.Sprintf("program %s | schedule %v | phases %s", run.prog, run.taken, strings.Join(ev, " "))
}

// c11Enumerate explores every schedule of a program (stateless DFS over the choice sequence).
func c11Enumerate(prog c11Program, limit int, visit func(*c11Run) bool) (runs int, complete bool) {
	prefix := []int{}
	for {
		run := c11Execute(prog, prefix)
		runs++
		if !visit(run) {
			return runs, false
		}
		if limit > 0 && runs >= limit {
			return runs, false
		}
		// next schedule: increment the deepest choice that has an alternative left
		taken := append([]int(nil), run.taken...)
		i := len(taken) - 1
		for i >= 0 && taken[i]+1 >= run.choices[i] {
			i--
		}
		if i < 0 {
			return runs, true
		}
		prefix = append(taken[:i:i], taken[i]+1)
	}
}

var c11Sessions = []string{"S1", "S2"}
var c11Peers = []string{"p1", "p2", "p3"}

func genC11Program(t *rapid.T, maxWorkers, maxOps int) c11Program {
	nw := rapid.IntRange(2, maxWorkers).Draw(t, "workers")
	var prog c11Program
	for w := 0; w < nw; w++ {
		n := rapid.IntRange(1, maxOps).Draw(t, fmt.Sprintf("nops%d", w))
		var ops []c11Op
		var adds []int
		for i := 0; i < n; i++ {
			kinds := []string{"add", "add", "broadcast", "bexcept", "sendto", "list", "close"}
			if len(adds) > 0 {
				kinds = append(kinds, "remove", "remove", "remove")
			}
			k := rapid.SampledFrom(kinds).Draw(t, fmt.Sprintf("kind%d_%d", w, i))
			op := c11Op{Kind: k,
				Session: rapid.SampledFrom([]string{"S1", "S1", "S1", "S2"}).Draw(t, fmt.Sprintf("ses%d_%d", w, i)),
				Peer:    rapid.SampledFrom(c11Peers).Draw(t, fmt.Sprintf("peer%d_%d", w, i))}
			if k == "add" {
				adds = append(adds, i)
			}
			if k == "remove" {
				op.Target = adds[rapid.IntRange(0, len(adds)-1).Draw(t, fmt.Sprintf("tgt%d_%d", w, i))]
			}
			ops = append(ops, op)
		}
		prog = append(prog, ops)
	}
	return prog
}

func c11Overlaps(run *c11Run) []string {
	var k []string
	for s := range run.overlap {
		k = append(k, strings.TrimPrefix(s, "hub."))
	}
	sort.Strings(k)
	return k
}

func TestVerifC11Random(t *testing.T) {
	rec := verifkit.NewRecorder("C11", "schedules")
	defer rec.Flush()
	rapid.Check(t, func(rt *rapid.T) {
		prog := genC11Program(rt, 4, 3)
		n := rapid.IntRange(0, 24).Draw(rt, "schedule_len")
		sched := make([]int, n)
		for i := range sched {
			sched[i] = rapid.IntRange(0, 3).Draw(rt, fmt.Sprintf("pick%d", i))
		}
		run := c11Execute(prog, sched)
		rec.Eval()
		sig, detail := c11Check(run)
		if sig != "" {
			rec.Fail(rt, sig, detail+" | "+run.describe())
			return
		}
		ov := c11Overlaps(run)
		for _, o := range ov {
			rec.Class("overlap/" + o)
		}
		if len(ov) > 0 {
			rec.NonTrivial(run.prog.String() + fmt.Sprint(run.taken))
		}
		if rec.SampleWanted() && len(ov) > 0 {
			rec.Sample(run.describe())
		}
	})
}

// TestVerifC11Exhaustive enumerates ALL schedules of all programs from a bounded family.
func TestVerifC11Exhaustive(t *testing.T) {
	rec := verifkit.NewRecorder("C11", "exhaustive")
	defer rec.Flush()
	sh, nsh := verifkit.Shard()
	// program family: 2 (thorough: up to 3) workers, each a short script over one session and two peer ids
	scripts := [][]c11Op{
		{{Kind: "add", Session: "S1", Peer: "p1"}, {Kind: "remove", Target: 0}},
		{{Kind: "add", Session: "S1", Peer: "p2"}, {Kind: "remove", Target: 0}},
		{{Kind: "add", Session: "S1", Peer: "p1"}},
		{{Kind: "broadcast", Session: "S1"}},
		{{Kind: "bexcept", Session: "S1", Peer: "p1"}},
		{{Kind: "sendto", Session: "S1", Peer: "p1"}},
		{{Kind: "close", Session: "S1"}},
		{{Kind: "add", Session: "S1", Peer: "p2"}, {Kind: "broadcast", Session: "S1"}},
		{{Kind: "add", Session: "S1", Peer: "p1"}, {Kind: "list", Session: "S1"}, {Kind: "remove", Target: 0}},
	}
	var progs []c11Program
	for i := range scripts {
		for j := i; j < len(scripts); j++ {
			progs = append(progs, c11Program{scripts[i], scripts[j]})
		}
	}
	if verifkit.Thorough() {
		for i := range scripts {
			for j := i; j < len(scripts); j++ {
				for k := j; k < len(scripts); k++ {
					progs = append(progs, c11Program{scripts[i], scripts[j], scripts[k]})
				}
			}
		}
	}
	totalRuns := 0
	allComplete := true
	for pi, prog := range progs {
		if pi%nsh != sh {
			continue
		}
		limit := 3000
		if verifkit.Thorough() {
			limit = 40000
		}
		nontrivial := false
		runs, complete := c11Enumerate(prog, limit, func(run *c11Run) bool {
			rec.Eval()
			sig, detail := c11Check(run)
			if sig != "" {
				rec.Fail(t, sig, detail+" | "+run.describe())
				return true // only reached for a listed known finding: keep enumerating
			}
			if len(run.overlap) > 0 {
				nontrivial = true
				for _, o := range c11Overlaps(run) {
					rec.Class("overlap/" + o)
				}
			}
			return true
		})
		totalRuns += runs
		if !complete {
			allComplete = false
			rec.Class("program-schedule-space-truncated")
		}
		if nontrivial {
			rec.NonTrivial(prog.String())
		}
		if rec.SampleWanted() {
			rec.Sample(map[string]any{"program": prog.String(), "schedules_enumerated": runs, "complete": complete})
		}
	}
	rec.Extra("programs", len(progs))
	rec.Extra("schedules_enumerated", totalRuns)
	rec.SetExhaustive(allComplete)
}
