package peers

import (
	"fmt"
	"runtime/debug"
	"strings"
	"sync"
	"sync/atomic"
	"testing"
	"time"

	"github.com/sheerbytes/sheerbytes/internal/verifkit"
	"github.com/sheerbytes/sheerbytes/pkg/protocol"
)

// ---- C11 (blocked writer): a peer whose socket stopped taking data ---------------------------
//
// The hub's per-connection writer can sit in its send function for as long as the peer's
// socket does not drain. Leaving while the writer is blocked takes the slow path of remove
// (it waits for the writer for one second and goes on). Whatever path is taken: once every
// connection of a session has left, no routing state of that session may remain.

func TestVerifC11BlockedWriter(t *testing.T) {
	rec := verifkit.NewRecorder("C11", "blocked-writer")
	defer rec.Flush()
	sh, nsh := verifkit.Shard()
	type variant struct {
		others   int    // other peers in the session
		lastOut  bool   // the blocked peer is the last one to leave
		how      string // remove | replaced-then-remove | close-session
		messages int    // messages queued for the blocked peer
	}
	var vs []variant
	for _, how := range []string{"remove", "replaced-then-remove", "close-session"} {
		for _, others := range []int{0, 1} {
			for _, last := range []bool{true, false} {
				for _, msgs := range []int{1, 3} {
					vs = append(vs, variant{others, last, how, msgs})
				}
			}
		}
	}
	var wg sync.WaitGroup
	var mu sync.Mutex
	type failure struct{ sig, detail string }
	var failures []failure // reported from the test goroutine after all variants have finished
	for i, v := range vs {
		if i%nsh != sh {
			continue
		}
		wg.Add(1)
		go func(i int, v variant) {
			defer wg.Done()
			h := NewHub()
			ses := fmt.Sprintf("S%d", i)
			release := make(chan struct{})
			entered := make(chan struct{}, 16)
			blocked := h.Add(ses, Peer{PeerID: "slow", Role: "receiver", ConnID: "c-slow"}, func(protocol.Envelope) error {
				entered <- struct{}{}
				<-release
				return nil
			}, func() {})
			var otherRemoves []func()
			for k := 0; k < v.others; k++ {
				otherRemoves = append(otherRemoves, h.Add(ses, Peer{PeerID: fmt.Sprintf("o%d", k), Role: "sender", ConnID: fmt.Sprintf("c-o%d", k)}, func(protocol.Envelope) error { return nil }, func() {}))
			}
			for m := 0; m < v.messages; m++ {
				h.SendTo(ses, "slow", protocol.Envelope{Type: "x"})
			}
			select {
			case <-entered:
			case <-time.After(2 * time.Second):
			}
			if !v.lastOut {
				for _, r := range otherRemoves {
					r()
				}
			}
			t0 := time.Now()
			left := make(chan struct{})
			go func() {
				defer close(left)
				switch v.how {
				case "remove":
					blocked()
				case "replaced-then-remove":
					r2 := h.Add(ses, Peer{PeerID: "slow", Role: "receiver", ConnID: "c-slow-2"}, func(protocol.Envelope) error { return nil }, func() {})
					blocked()
					r2()
				case "close-session":
					h.CloseSession(ses)
					blocked()
				}
			}()
			// an uninvolved peer of another session must be served meanwhile
			bystander := make(chan bool, 1)
			go func() {
				other := fmt.Sprintf("other%d", i)
				rm := h.Add(other, Peer{PeerID: "by", Role: "sender", ConnID: "c-by"}, func(protocol.Envelope) error { return nil }, func() {})
				h.List(other)
				ok := h.SendTo(other, "by", protocol.Envelope{Type: "x"})
				rm()
				bystander <- ok
			}()
			stuck := ""
			select {
			case <-left:
			case <-time.After(8 * time.Second):
				stuck = "the leaving/replacing call did not return within 8 s while the old connection's writer was blocked in send"
			}
			if stuck == "" {
				select {
				case <-bystander:
				case <-time.After(8 * time.Second):
					stuck = "operations of an uninvolved peer in another session did not finish within 8 s"
				}
			}
			if stuck != "" {
				close(release)
				mu.Lock()
				rec.Eval()
				failures = append(failures, failure{"deadlock", fmt.Sprintf("%s | session with a peer whose writer is blocked in send, %d other peers, leave via %s", stuck, v.others, v.how)})
				mu.Unlock()
				return
			}
			took := time.Since(t0)
			if v.lastOut {
				for _, r := range otherRemoves {
					r()
				}
			}
			close(release) // the socket finally drains (or is torn down)
			time.Sleep(50 * time.Millisecond)
			h.mu.RLock()
			_, a := h.sessions[ses]
			_, b := h.byPeerID[ses]
			h.mu.RUnlock()
			mu.Lock()
			defer mu.Unlock()
			rec.Eval()
			rec.Class("leave/" + v.how)
			if took > 900*time.Millisecond {
				rec.Class("remove-took-the-writer-time-out-path")
			}
			desc := fmt.Sprintf("session with a peer whose writer is blocked in send (%d messages queued), %d other peers, leave via %s, blocked peer leaves last=%v", v.messages, v.others, v.how, v.lastOut)
			if a || b {
				failures = append(failures, failure{"routing-state-leak", fmt.Sprintf("every connection has left but the hub still holds state for the session (sessions entry: %v, byPeerID entry: %v) | %s", a, b, desc)})
				return
			}
			if len(h.List(ses)) != 0 {
				failures = append(failures, failure{"left-peer-still-listed", desc})
				return
			}
			rec.NonTrivial(fmt.Sprintf("%+v", v))
			if rec.SampleWanted() {
				rec.Sample(desc)
			}
		}(i, v)
	}
	wg.Wait()
	for _, f := range failures {
		if !rec.Fail(t, f.sig, f.detail) {
			return
		}
	}
}

// ---- C11 (stress): real concurrency, no scheduler ----------------------------------------------
//
// The controlled schedules interleave the hub's operations at its instrumented points only.
// This unit lets the Go scheduler interleave them at every instruction instead: senders
// hammer SendTo / Broadcast / BroadcastExcept / List while other goroutines make peers
// join, get replaced by a reconnect, leave, and close the session. Oracle: no goroutine
// panics, all of them finish (no deadlock), and afterwards the hub holds no state for a
// session all of whose connections have left.

func TestVerifC11Stress(t *testing.T) {
	rec := verifkit.NewRecorder("C11", "stress")
	defer rec.Flush()
	dur := 1500 * time.Millisecond
	if verifkit.Thorough() {
		dur = 20 * time.Second
	}
	h := NewHub()
	sessions := []string{"A", "B"}
	var stop atomic.Bool
	var ops atomic.Int64
	var pmu sync.Mutex
	var panics []string
	guard := func(name string, fn func()) {
		defer func() {
			if r := recover(); r != nil {
				pmu.Lock()
				panics = append(panics, fmt.Sprintf("%s: %v\n%s", name, r, debug.Stack()))
				pmu.Unlock()
				stop.Store(true)
			}
		}()
		fn()
	}
	var wg sync.WaitGroup
	noop := func(protocol.Envelope) error { return nil }
	var sendCalls atomic.Int64
	flaky := func(protocol.Envelope) error { // a socket that breaks now and then
		if sendCalls.Add(1)%7 == 0 {
			return fmt.Errorf("write: broken pipe")
		}
		return nil
	}
	// churners: join / reconnect under the same id / leave
	var connSeq atomic.Int64
	for c := 0; c < 4; c++ {
		wg.Add(1)
		go func(c int) {
			defer wg.Done()
			guard("churner", func() {
				x := verifkit.XorShift(uint64(verifkit.Seed())*977 + uint64(c) + 1)
				for !stop.Load() {
					ses := sessions[int(x.Next()%2)]
					peer := fmt.Sprintf("p%d", x.Next()%3)
					send := noop
					linger := false
					if x.Next()%3 == 0 {
						send = flaky
						linger = x.Next()%2 == 0
					}
					r1 := h.Add(ses, Peer{PeerID: peer, Role: "receiver", ConnID: fmt.Sprintf("c%d", connSeq.Add(1))}, send, func() {})
					if linger {
						// the handler of a broken connection needs a moment to notice and leave;
						// until then the peer is still registered and others keep sending to it
						time.Sleep(time.Duration(x.Next()%300) * time.Microsecond)
					}
					switch x.Next() % 4 {
					case 0: // reconnect with the same id, old connection leaves afterwards
						r2 := h.Add(ses, Peer{PeerID: peer, Role: "receiver", ConnID: fmt.Sprintf("c%d", connSeq.Add(1))}, noop, func() {})
						r1()
						r2()
					case 1:
						h.CloseSession(ses)
						r1()
					default:
						r1()
					}
					ops.Add(1)
				}
			})
		}(c)
	}
	// senders
	for s := 0; s < 8; s++ {
		wg.Add(1)
		go func(s int) {
			defer wg.Done()
			guard("sender", func() {
				x := verifkit.XorShift(uint64(verifkit.Seed())*131 + uint64(s) + 100)
				env := protocol.Envelope{Type: "x"}
				for !stop.Load() {
					ses := sessions[int(x.Next()%2)]
					switch x.Next() % 4 {
					case 0:
						h.Broadcast(ses, env)
					case 1:
						h.BroadcastExcept(ses, "p0", env)
					case 2:
						h.List(ses)
					default:
						h.SendTo(ses, fmt.Sprintf("p%d", x.Next()%3), env)
					}
					ops.Add(1)
				}
			})
		}(s)
	}
	time.Sleep(dur)
	stop.Store(true)
	done := make(chan struct{})
	go func() { wg.Wait(); close(done) }()
	deadlock := false
	select {
	case <-done:
	case <-time.After(10 * time.Second):
		deadlock = true
	}
	rec.Eval()
	rec.ClassN("operations", ops.Load())
	pmu.Lock()
	defer pmu.Unlock()
	if len(panics) > 0 {
		sig := "panic"
		if strings.Contains(panics[0], "send on closed channel") {
			sig = "panic-send-on-closed-channel"
		}
		rec.Fail(t, sig, "under real concurrency (join/reconnect/leave/close-session against send/broadcast/list): "+panics[0])
		return
	}
	if deadlock {
		rec.Fail(t, "deadlock", "the hub's callers did not finish within 10 s after the stress loop was stopped")
		return
	}
	time.Sleep(50 * time.Millisecond)
	for _, ses := range sessions {
		h.mu.RLock()
		_, a := h.sessions[ses]
		_, b := h.byPeerID[ses]
		h.mu.RUnlock()
		if a || b || len(h.List(ses)) != 0 {
			rec.Fail(t, "routing-state-leak", fmt.Sprintf("after every connection of session %s has left the hub still holds state for it (sessions entry: %v, byPeerID entry: %v)", ses, a, b))
			return
		}
	}
	rec.NonTrivial(fmt.Sprintf("stress/%d", verifkit.Seed()))
	rec.NonTrivial("stress/finished-clean")
	rec.Sample(map[string]any{"duration_ms": dur.Milliseconds(), "operations": ops.Load()})
}
