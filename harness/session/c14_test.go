package session

import (
	"crypto/rand"
	"fmt"
	"io"
	"sync"
	"testing"
	"time"

	"github.com/sheerbytes/sheerbytes/internal/verifkit"
	"pgregory.net/rapid"
)

// ---- C14 (store model): codes of live sessions are distinct, dead codes are not found ----

// collidingReader stands in for crypto/rand.Reader: 8-byte reads (join codes) are answered
// from a pool of four values half of the time, so that a freshly drawn code collides with
// the code of a live session every few creates - an event that is out of reach with 32^8
// codes. Everything else (session ids) stays random.
type collidingReader struct {
	mu   sync.Mutex
	real io.Reader
	x    verifkit.XorShift
	hits int
}

func (c *collidingReader) Read(b []byte) (int, error) {
	c.mu.Lock()
	defer c.mu.Unlock()
	if len(b) == 8 && c.x.Next()%2 == 0 {
		v := byte(c.x.Next() % 4)
		for i := range b {
			b[i] = v*8 + byte(i)
		}
		c.hits++
		return len(b), nil
	}
	return io.ReadFull(c.real, b)
}

func TestVerifC14Store(t *testing.T) {
	rec := verifkit.NewRecorder("C14", "store")
	defer rec.Flush()
	rapid.Check(t, func(rt *rapid.T) {
		ttl := rapid.SampledFrom([]time.Duration{0, 0, 15 * time.Millisecond}).Draw(rt, "ttl")
		st := NewStore(ttl)
		limit := rapid.SampledFrom([]int{0, 0, 5, 1000}).Draw(rt, "create_limit") // 0: Create, else CreateIfBelow(limit)
		if rapid.IntRange(0, 2).Draw(rt, "colliding_codes") == 1 {
			cr := &collidingReader{real: rand.Reader, x: verifkit.XorShift(rapid.Uint64().Draw(rt, "rand_seed") | 1)}
			rand.Reader = cr
			defer func() {
				rand.Reader = cr.real
				if cr.hits > 0 {
					rec.Class("join-code-draws-from-a-4-value-pool")
				}
			}()
		}
		type live struct {
			s       Session
			created time.Time
		}
		model := map[string]live{} // by session id
		dead := map[string]bool{}  // join codes of deleted/expired sessions
		n := rapid.IntRange(1, 60).Draw(rt, "ops")
		sawDelete, sawExpire := false, false
		for i := 0; i < n; i++ {
			switch rapid.SampledFrom([]string{"create", "create", "create", "delete", "lookup", "lookup-dead", "sleep"}).Draw(rt, fmt.Sprintf("op%d", i)) {
			case "create":
				var s Session
				if limit == 0 {
					s = st.Create()
				} else {
					var ok bool
					s, ok = st.CreateIfBelow(limit)
					if !ok {
						if len(model) < limit && ttl == 0 {
							rec.Fail(rt, "create-refused-below-limit", fmt.Sprintf("CreateIfBelow(%d) refused with %d live sessions", limit, len(model)))
							return
						}
						continue
					}
					if len(model) >= limit && ttl == 0 {
						rec.Fail(rt, "max-sessions-exceeded", fmt.Sprintf("CreateIfBelow(%d) created a session while %d are live", limit, len(model)))
						return
					}
				}
				if got, ok := st.GetByJoinCode(s.JoinCode); !ok || got.ID != s.ID {
					rec.Fail(rt, "fresh-code-resolves-elsewhere", fmt.Sprintf("the code %s just handed out for session %s resolves to %q (found=%v)", s.JoinCode, s.ID, got.ID, ok))
					return
				}
				for _, l := range model {
					if l.s.JoinCode == s.JoinCode && (ttl == 0 || time.Since(l.created) < ttl) {
						rec.Fail(rt, "duplicate-live-join-code", fmt.Sprintf("join code %s handed out twice while both sessions are live", s.JoinCode))
						return
					}
					if l.s.ID == s.ID {
						rec.Fail(rt, "duplicate-session-id", s.ID)
						return
					}
				}
				delete(dead, s.JoinCode)
				model[s.ID] = live{s, time.Now()}
			case "delete":
				for id, l := range model {
					st.Delete(id)
					dead[l.s.JoinCode] = true
					delete(model, id)
					sawDelete = true
					break
				}
			case "lookup":
				for _, l := range model {
					age := time.Since(l.created)
					got, ok := st.GetByJoinCode(l.s.JoinCode)
					ageAfter := time.Since(l.created) // (the call may have been delayed on a busy machine)
					switch {
					case ttl == 0 || ageAfter < ttl-5*time.Millisecond:
						if !ok || got.ID != l.s.ID {
							rec.Fail(rt, "live-code-not-found", fmt.Sprintf("session %s (age %s, ttl %s) not found by its join code", l.s.ID, age, ttl))
							return
						}
					case age > ttl+5*time.Millisecond:
						sawExpire = true
						if _, reused := model[got.ID]; ok && got.ID != l.s.ID && reused {
							break // the code has since been handed to another, live session
						}
						if ok {
							rec.Fail(rt, "expired-code-still-admits", fmt.Sprintf("join code %s found %s after creation, lifetime %s", l.s.JoinCode, age, ttl))
							return
						}
					}
					break
				}
			case "lookup-dead":
				for code := range dead {
					if got, ok := st.GetByJoinCode(code); ok {
						if _, reused := model[got.ID]; reused {
							break // handed out again to a live session
						}
						rec.Fail(rt, "deleted-code-still-admits", "join code "+code+" found after its session was deleted")
						return
					}
					break
				}
			case "sleep":
				if ttl > 0 {
					time.Sleep(ttl + 8*time.Millisecond)
				}
			}
		}
		rec.Eval()
		if sawDelete || sawExpire {
			rec.NonTrivial(fmt.Sprintf("%d/%s/%v%v/%d", n, ttl, sawDelete, sawExpire, len(model)))
		}
	})
}
