package session

import (
	"fmt"
	"testing"
	"time"

	"github.com/sheerbytes/sheerbytes/internal/verifkit"
	"pgregory.net/rapid"
)

// ---- C14 (store model): codes of live sessions are distinct, dead codes are not found ----

func TestVerifC14Store(t *testing.T) {
	rec := verifkit.NewRecorder("C14", "store")
	defer rec.Flush()
	rapid.Check(t, func(rt *rapid.T) {
		ttl := rapid.SampledFrom([]time.Duration{0, 0, 15 * time.Millisecond}).Draw(rt, "ttl")
		st := NewStore(ttl)
		type live struct {
			s       Session
			created time.Time
		}
		model := map[string]live{} // by session id
		dead := map[string]bool{}  // join codes of deleted/expired sessions
		n := rapid.IntRange(1, 60).Draw(rt, "ops")
		sawDelete, sawExpire := false, false
		for i := 0; i < n; i++ {
			switch rapid.SampledFrom([]string{"create", "create", "create", "delete", "lookup", "lookup-dead", "sleep"}).Draw(rt, fmt.Sprintf("op%d", i)) {
			case "create":
				s := st.Create()
				for _, l := range model {
					if l.s.JoinCode == s.JoinCode && (ttl == 0 || time.Since(l.created) < ttl) {
						rec.Fail(rt, "duplicate-live-join-code", fmt.Sprintf("join code %s handed out twice while both sessions are live", s.JoinCode))
						return
					}
					if l.s.ID == s.ID {
						rec.Fail(rt, "duplicate-session-id", s.ID)
						return
					}
				}
				delete(dead, s.JoinCode)
				model[s.ID] = live{s, time.Now()}
			case "delete":
				for id, l := range model {
					st.Delete(id)
					dead[l.s.JoinCode] = true
					delete(model, id)
					sawDelete = true
					break
				}
			case "lookup":
				for _, l := range model {
					age := time.Since(l.created)
					got, ok := st.GetByJoinCode(l.s.JoinCode)
					switch {
					case ttl == 0 || age < ttl-5*time.Millisecond:
						if !ok || got.ID != l.s.ID {
							rec.Fail(rt, "live-code-not-found", fmt.Sprintf("session %s (age %s, ttl %s) not found by its join code", l.s.ID, age, ttl))
							return
						}
					case age > ttl+5*time.Millisecond:
						sawExpire = true
						if ok {
							rec.Fail(rt, "expired-code-still-admits", fmt.Sprintf("join code %s found %s after creation, lifetime %s", l.s.JoinCode, age, ttl))
							return
						}
					}
					break
				}
			case "lookup-dead":
				for code := range dead {
					if _, ok := st.GetByJoinCode(code); ok {
						rec.Fail(rt, "deleted-code-still-admits", "join code "+code+" found after its session was deleted")
						return
					}
					break
				}
			case "sleep":
				if ttl > 0 {
					time.Sleep(ttl + 8*time.Millisecond)
				}
			}
		}
		rec.Eval()
		if sawDelete || sawExpire {
			rec.NonTrivial(fmt.Sprintf("%d/%s/%v%v/%d", n, ttl, sawDelete, sawExpire, len(model)))
		}
	})
}
