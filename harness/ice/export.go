//go:build verif

package ice

// VerifTurn is the exported view of a parsed TURN server URL (export shim for the /verif harness).
type VerifTurn struct {
	Addr, Username, Password, Realm, ServerName string
	UseTCP, UseTLS, InsecureTLS                 bool
}

// VerifParseTurnServer exposes the client's parser of TURN server URLs.
func VerifParseTurnServer(raw string) (VerifTurn, error) {
	c, err := parseTurnServer(raw)
	return VerifTurn{Addr: c.addr, Username: c.username, Password: c.password, Realm: c.realm, ServerName: c.serverName,
		UseTCP: c.useTCP, UseTLS: c.useTLS, InsecureTLS: c.insecureTLS}, err
}
