package ice

import (
	"context"
	"crypto/rand"
	"encoding/hex"
	"fmt"
	"io"
	"log/slog"
	"net"
	"sort"
	"strings"
	"sync"
	"testing"
	"time"

	"github.com/quic-go/quic-go"
	"github.com/sheerbytes/sheerbytes/internal/quictransport"
	"github.com/sheerbytes/sheerbytes/internal/verifhook"
	"github.com/sheerbytes/sheerbytes/internal/verifkit"
	"pgregory.net/rapid"
)

// ---- C09 (dial side): parallel probing leaves exactly one connection ----------------------

type c09Server struct {
	udp   *net.UDPConn
	tr    *quic.Transport
	ln    *quic.Listener
	port  int
	mu    sync.Mutex
	conns []*c09Accepted
}

type c09Accepted struct {
	conn   *quic.Conn
	nonce  string
	closed bool
}

func newC09Server() (*c09Server, error) {
	udp, err := net.ListenUDP("udp", &net.UDPAddr{Port: 0})
	if err != nil {
		return nil, err
	}
	s := &c09Server{udp: udp, tr: &quic.Transport{Conn: udp}, port: udp.LocalAddr().(*net.UDPAddr).Port}
	s.ln, err = s.tr.Listen(quictransport.ServerConfig(), quictransport.DefaultServerQUICConfig())
	if err != nil {
		return nil, err
	}
	go func() {
		for {
			c, err := s.ln.Accept(context.Background())
			if err != nil {
				return
			}
			a := &c09Accepted{conn: c}
			s.mu.Lock()
			s.conns = append(s.conns, a)
			s.mu.Unlock()
			go func() {
				<-c.Context().Done()
				s.mu.Lock()
				a.closed = true
				s.mu.Unlock()
			}()
			go func() {
				st, err := c.AcceptStream(context.Background())
				if err != nil {
					return
				}
				buf := make([]byte, 16)
				if _, err := io.ReadFull(st, buf); err == nil {
					s.mu.Lock()
					a.nonce = hex.EncodeToString(buf)
					s.mu.Unlock()
				}
			}()
		}
	}()
	return s, nil
}

func (s *c09Server) close() { s.ln.Close(); s.tr.Close(); s.udp.Close() }

// reset forgets (and closes) everything accepted so far.
func (s *c09Server) reset() {
	s.mu.Lock()
	old := s.conns
	s.conns = nil
	s.mu.Unlock()
	for _, a := range old {
		a.conn.CloseWithError(0, "reset")
	}
}

// localAddrs lists this host's usable unicast addresses (no link-local: they need a zone).
func localAddrs() []string {
	var out []string
	addrs, _ := net.InterfaceAddrs()
	for _, a := range addrs {
		ipn, ok := a.(*net.IPNet)
		if !ok || ipn.IP.IsLinkLocalUnicast() || ipn.IP.IsMulticast() {
			continue
		}
		out = append(out, ipn.IP.String())
	}
	sort.Strings(out)
	return out
}

type c09Case struct {
	Cands []string // candidate strings (HOSTPORT forms), in list order
	Order []int    // completion order: permutation prefix of the reachable ones; index 0 completes first
	Hooks bool     // force the order with hooks (late completers are held until the winner was taken)
}

// c09Respell writes host:port in another textual form that resolves to the same address.
func c09Respell(c string) string {
	host, port, err := net.SplitHostPort(c)
	if err != nil {
		return ""
	}
	ip := net.ParseIP(host)
	if ip == nil {
		return ""
	}
	if v4 := ip.To4(); v4 != nil {
		return "[::ffff:" + v4.String() + "]:" + port
	}
	var parts []string
	for i := 0; i < 16; i += 2 {
		parts = append(parts, fmt.Sprintf("%x", uint16(ip[i])<<8|uint16(ip[i+1])))
	}
	alt := strings.Join(parts, ":")
	if alt == host {
		alt = strings.ToUpper(alt)
		if alt == host {
			return ""
		}
	}
	return "[" + alt + "]:" + port
}

func TestVerifC09Dial(t *testing.T) {
	rec := verifkit.NewRecorder("C09", "dial")
	defer rec.Flush()
	srv, err := newC09Server()
	if err != nil {
		t.Fatalf("listener: %v", err)
	}
	defer srv.close()
	locals := localAddrs()
	if len(locals) < 2 {
		t.Skip("needs at least two local addresses")
	}
	logger := slog.New(slog.NewTextHandler(io.Discard, nil))
	rapid.Check(t, func(rt *rapid.T) {
		srv.reset()
		nreach := rapid.IntRange(1, min(5, len(locals))).Draw(rt, "reachable")
		perm := rapid.Permutation(locals).Draw(rt, "addr_order")
		var cands []string
		reach := map[string]bool{}
		for _, ip := range perm[:nreach] {
			c := net.JoinHostPort(ip, fmt.Sprint(srv.port))
			cands = append(cands, c)
			reach[c] = true
		}
		extras := rapid.SliceOfN(rapid.SampledFrom([]string{"closed-port", "blackhole", "duplicate", "turn-prefixed", "malformed", "malformed2", "respelled", "respelled"}), 0, 3).Draw(rt, "extras")
		for _, e := range extras {
			switch e {
			case "closed-port":
				cands = append(cands, "127.0.0.1:9")
			case "blackhole":
				cands = append(cands, "192.0.2.99:4444")
			case "duplicate":
				cands = append(cands, cands[0])
			case "turn-prefixed":
				cands = append(cands, "turn:"+cands[0])
			case "respelled":
				// the same address written differently: another string, so it is dialed as well,
				// and it must lose (or win) the race like any other candidate
				if alt := c09Respell(cands[0]); alt != "" {
					cands = append(cands, alt)
					reach[alt] = true
				}
			case "malformed":
				cands = append(cands, "not an address")
			default:
				cands = append(cands, "[::1")
			}
			rec.Class("extra/" + e)
		}
		cands = rapid.Permutation(cands).Draw(rt, "list_order")
		useHooks := rapid.Bool().Draw(rt, "force_order")
		holdFirst := rapid.IntRange(0, 2).Draw(rt, "hold_first_completer") == 1
		if holdFirst {
			useHooks = true
		}
		firstIdx := rapid.IntRange(0, nreach-1).Draw(rt, "first")
		first := net.JoinHostPort(perm[firstIdx], fmt.Sprint(srv.port))
		if rapid.IntRange(0, 5).Draw(rt, "relay_first") == 0 {
			// every direct attempt is slow (held by the hook for up to 3 s), only a relay-prefixed
			// candidate would be quick: the direct phase must still end with exactly one connection
			first = "turn:" + first
			useHooks = true
			found := false
			for _, c := range cands {
				if c == first {
					found = true
				}
			}
			if !found {
				cands = append(cands, first)
			}
			rec.Class("direct-slow-relay-quick")
		}

		udp, err := net.ListenUDP("udp", &net.UDPAddr{Port: 0})
		if err != nil {
			rt.Fatalf("udp: %v", err)
		}
		p := &Prober{config: ProberConfig{}, logger: logger, udpConn: udp}
		defer p.Close()

		var hmu sync.Mutex
		winnerTaken := make(chan struct{})
		var once sync.Once
		late := 0
		if useHooks {
			verifhook.Set(func(name, detail string, n int64) {
				switch name {
				case "ice.probe.dialed":
					if detail == first {
						if holdFirst {
							// the only (or first) attempt to succeed dawdles between its handshake
							// and handing the connection over
							time.Sleep(120 * time.Millisecond)
						}
						return
					}
					// a later completer: wait until the caller has taken the winner, then finish
					select {
					case <-winnerTaken:
						hmu.Lock()
						late++
						hmu.Unlock()
					case <-time.After(3 * time.Second):
					}
				case "ice.probe.returning":
					once.Do(func() { close(winnerTaken) })
					time.Sleep(30 * time.Millisecond) // the window before the deferred cancel takes effect
				}
			})
			defer verifhook.Set(nil)
		}
		ctx, cancel := context.WithTimeout(context.Background(), 8*time.Second)
		defer cancel()
		t0 := time.Now()
		var umu sync.Mutex
		var probeErrs []string
		conn, err := p.ProbeAndDial(ctx, cands, quictransport.ClientConfig(), quictransport.DefaultClientQUICConfig(), func(u ProbeUpdate) {
			if u.Err != nil {
				umu.Lock()
				probeErrs = append(probeErrs, fmt.Sprintf("%s: %v", u.Addr, u.Err))
				umu.Unlock()
			}
		})
		dur := time.Since(t0)
		verifhook.Set(nil)
		desc := fmt.Sprintf("candidates=%v first-to-complete=%s forced-order=%v", cands, first, useHooks)
		if err != nil {
			// dial attempts that die of a local resource shortage (the harness opens thousands of
			// sockets per run) say nothing about the racing logic
			umu.Lock()
			errs := strings.Join(probeErrs, "; ")
			umu.Unlock()
			for _, marker := range []string{"too many open files", "no buffer space", "cannot allocate memory", "address already in use", "operation not permitted", "use of closed network connection"} {
				if strings.Contains(errs, marker) {
					rec.Class("not-run-local-resource-error")
					rec.Note("case not judged, local error: %s", errs)
					return
				}
			}
			desc += " | probe errors: " + errs
		}
		rec.Eval()
		if err != nil {
			rec.Fail(rt, "no-connection", fmt.Sprintf("ProbeAndDial failed although %d candidates are reachable: %v (%s) | %s", nreach, err, dur, desc))
			return
		}
		// identify the winner on the server side by a nonce
		nonce := make([]byte, 16)
		rand.Read(nonce)
		st, err := conn.OpenStreamSync(ctx)
		if err != nil {
			rec.Fail(rt, "returned-connection-dead", fmt.Sprintf("the returned connection cannot open a stream: %v | %s", err, desc))
			return
		}
		st.Write(nonce)
		// grace period for the losers to be closed: at least 500 ms, and up to 4 s on a busy
		// machine (the verdict is taken from the first moment after 500 ms at which exactly one
		// connection is open and carries the nonce, or from the state after 4 s)
		var open, winners, accepted int
		var openAddrs []string
		for waited := time.Duration(0); ; waited += 100 * time.Millisecond {
			time.Sleep(100 * time.Millisecond)
			srv.mu.Lock()
			open, winners, openAddrs = 0, 0, nil
			for _, a := range srv.conns {
				if !a.closed {
					open++
					openAddrs = append(openAddrs, a.conn.RemoteAddr().String())
					if a.nonce == hex.EncodeToString(nonce) {
						winners++
					}
				}
			}
			accepted = len(srv.conns)
			srv.mu.Unlock()
			if waited >= 400*time.Millisecond && ((open == 1 && winners == 1) || waited >= 3900*time.Millisecond) {
				break
			}
		}
		conn.CloseWithError(0, "done")
		if winners != 1 {
			rec.Fail(rt, "winner-not-alive", fmt.Sprintf("the connection returned to the caller is not among the listener's open connections (%d matches) | %s", winners, desc))
			return
		}
		if open != 1 {
			hmu.Lock()
			l := late
			hmu.Unlock()
			rec.Fail(rt, "late-winner-left-open", fmt.Sprintf("%d connections are still open on the listener 4 s after ProbeAndDial returned one (accepted %d, late completions forced %d, open from %v) | %s", open, accepted, l, openAddrs, desc))
			return
		}
		// one attempt per address: a candidate listed twice must not produce two connections
		// (the accepting side could commit to the one that is about to be abandoned)
		distinct := map[string]bool{}
		relayListed := false
		for _, c := range cands {
			if strings.HasPrefix(c, "turn:") {
				relayListed = true
			}
			if reach[c] {
				distinct[c] = true
			}
		}
		if !relayListed && accepted > len(distinct) {
			rec.Fail(rt, "duplicate-candidate-dialed-twice", fmt.Sprintf("the listener accepted %d connections for %d distinct reachable candidate addresses | %s", accepted, len(distinct), desc))
			return
		}
		if nreach >= 2 && accepted >= 2 {
			rec.NonTrivial(fmt.Sprintf("%d/%d/%v/%s", nreach, accepted, useHooks, strings.Join(extras, ",")))
			rec.Class("two-or-more-handshakes-completed")
		}
		if useHooks {
			rec.Class("order-forced")
		}
		if rec.SampleWanted() {
			rec.Sample(map[string]any{"case": desc, "accepted_on_listener": accepted, "duration_ms": dur.Milliseconds()})
		}
	})
}

// TestVerifC09RelayOnly: no direct candidate answers (packets to it vanish), the peer is
// reachable under a relay-prefixed candidate only. The relay phase starts when the direct
// attempts have failed; it must still have time to connect. Run once per check (shard 0): a
// case takes as long as a silent handshake takes to give up (about 5 s).
func TestVerifC09RelayOnly(t *testing.T) {
	rec := verifkit.NewRecorder("C09", "relay-only")
	defer rec.Flush()
	if sh, _ := verifkit.Shard(); sh != 0 {
		return
	}
	srv, err := newC09Server()
	if err != nil {
		t.Fatalf("listener: %v", err)
	}
	defer srv.close()
	logger := slog.New(slog.NewTextHandler(io.Discard, nil))
	for _, silent := range [][]string{{"192.0.2.99:4444"}, {"192.0.2.99:4444", "192.0.2.98:4444", "192.0.2.99:4444"}} {
		srv.reset()
		cands := append(append([]string(nil), silent...), fmt.Sprintf("turn:127.0.0.1:%d", srv.port))
		udp, err := net.ListenUDP("udp", &net.UDPAddr{Port: 0})
		if err != nil {
			t.Fatalf("udp: %v", err)
		}
		p := &Prober{config: ProberConfig{}, logger: logger, udpConn: udp}
		ctx, cancel := context.WithTimeout(context.Background(), 40*time.Second)
		t0 := time.Now()
		var umu sync.Mutex
		var probeErrs []string
		conn, err := p.ProbeAndDial(ctx, cands, quictransport.ClientConfig(), quictransport.DefaultClientQUICConfig(), func(u ProbeUpdate) {
			if u.Err != nil {
				umu.Lock()
				probeErrs = append(probeErrs, fmt.Sprintf("%s: %v", u.Addr, u.Err))
				umu.Unlock()
			}
		})
		dur := time.Since(t0)
		cancel()
		umu.Lock()
		errs := strings.Join(probeErrs, "; ")
		umu.Unlock()
		desc := fmt.Sprintf("candidates=%v (%s) probe errors: %s", cands, dur.Round(100*time.Millisecond), errs)
		local := false
		for _, marker := range []string{"too many open files", "no buffer space", "cannot allocate memory", "address already in use", "operation not permitted", "network is unreachable"} {
			if strings.Contains(errs, marker) {
				local = true
			}
		}
		if local {
			rec.Class("not-run-local-resource-error")
			rec.Note("case not judged, local error: %s", errs)
			p.Close()
			continue
		}
		rec.Eval()
		if err != nil {
			p.Close()
			rec.Fail(t, "no-connection", fmt.Sprintf("ProbeAndDial failed although the peer is reachable under its relay-prefixed candidate: %v | %s", err, desc))
			return
		}
		time.Sleep(500 * time.Millisecond)
		srv.mu.Lock()
		open := 0
		for _, a := range srv.conns {
			if !a.closed {
				open++
			}
		}
		srv.mu.Unlock()
		if open != 1 {
			conn.CloseWithError(0, "")
			p.Close()
			rec.Fail(t, "late-winner-left-open", fmt.Sprintf("%d connections are open on the listener after ProbeAndDial returned the relay connection | %s", open, desc))
			return
		}
		conn.CloseWithError(0, "")
		p.Close()
		rec.NonTrivial(strings.Join(cands, ","))
		rec.Sample(map[string]any{"case": desc})
	}
}
