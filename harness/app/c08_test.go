package app

import (
	"context"
	"crypto/rand"
	"fmt"
	"io"
	"log/slog"
	"net"
	"sync"
	"testing"
	"time"

	"github.com/quic-go/quic-go"
	"github.com/sheerbytes/sheerbytes/internal/quictransport"
	"github.com/sheerbytes/sheerbytes/internal/transfer"
	"github.com/sheerbytes/sheerbytes/internal/transferquic"
	"github.com/sheerbytes/sheerbytes/internal/verifkit"
	"pgregory.net/rapid"
)

// ---- C08: transport authentication over real loopback QUIC ---------------------------------

type c08Net struct {
	listener *quic.Listener
	lt       *transferquic.QUICTransport
	addr     net.Addr
	logger   *slog.Logger
	udp      net.PacketConn
}

func newC08Net() (*c08Net, error) {
	logger := slog.New(slog.NewTextHandler(io.Discard, nil))
	udp, err := net.ListenPacket("udp", "127.0.0.1:0")
	if err != nil {
		return nil, err
	}
	l, err := quictransport.ListenWithConfig(context.Background(), udp, logger, quictransport.DefaultServerQUICConfig())
	if err != nil {
		return nil, err
	}
	return &c08Net{listener: l, lt: transferquic.NewListener(l, logger), addr: udp.LocalAddr(), logger: logger, udp: udp}, nil
}

func (n *c08Net) close() { n.listener.Close(); n.udp.Close() }

// pair establishes one fresh QUIC connection (one TLS session) and returns its two ends.
func (n *c08Net) pair(ctx context.Context) (dialer, acceptor transfer.Conn, closeFn func(), err error) {
	cudp, err := net.ListenPacket("udp", "127.0.0.1:0")
	if err != nil {
		return nil, nil, nil, err
	}
	tr := &quic.Transport{Conn: cudp}
	type acc struct {
		c   transfer.Conn
		err error
	}
	ach := make(chan acc, 1)
	go func() {
		c, err := n.lt.Accept(ctx)
		ach <- acc{c, err}
	}()
	qc, err := tr.Dial(ctx, n.addr, quictransport.ClientConfig(), quictransport.DefaultClientQUICConfig())
	if err != nil {
		cudp.Close()
		return nil, nil, nil, err
	}
	d, err := transferquic.NewDialer(qc, n.logger).Dial(ctx, "peer")
	if err != nil {
		cudp.Close()
		return nil, nil, nil, err
	}
	a := <-ach
	if a.err != nil {
		cudp.Close()
		return nil, nil, nil, a.err
	}
	return d, a.c, func() { d.Close(); a.c.Close(); qc.CloseWithError(0, ""); tr.Close(); cudp.Close() }, nil
}

// runBoth runs the honest sender and receiver handshakes on the two ends of a connection.
func c08RunBoth(ctx context.Context, d, a transfer.Conn, codeS, codeR string) (errS, errR error) {
	var wg sync.WaitGroup
	wg.Add(2)
	go func() { defer wg.Done(); errS = authenticateTransport(ctx, d, codeS, authRoleSender) }()
	go func() { defer wg.Done(); errR = authenticateTransport(ctx, a, codeR, authRoleReceive) }()
	wg.Wait()
	return
}

// mutConn wraps a connection so that the bytes written on its first stream are altered.
type mutConn struct {
	transfer.Conn
	mutate func(b []byte) []byte // applied to each whole Write
	drop   bool                  // close instead of writing the rest
}

func (m *mutConn) ExportKeyingMaterial(label string, ctx []byte, length int) ([]byte, error) {
	return m.Conn.(authExporter).ExportKeyingMaterial(label, ctx, length)
}
func (m *mutConn) OpenStream(ctx context.Context) (transfer.Stream, error) {
	s, err := m.Conn.OpenStream(ctx)
	if err != nil {
		return nil, err
	}
	return &mutStream{Stream: s, m: m}, nil
}
func (m *mutConn) AcceptStream(ctx context.Context) (transfer.Stream, error) {
	s, err := m.Conn.AcceptStream(ctx)
	if err != nil {
		return nil, err
	}
	return &mutStream{Stream: s, m: m}, nil
}

type mutStream struct {
	transfer.Stream
	m *mutConn
}

func (s *mutStream) Write(p []byte) (int, error) {
	q := s.m.mutate(append([]byte(nil), p...))
	if _, err := s.Stream.Write(q); err != nil {
		return 0, err
	}
	if len(q) < len(p) {
		s.Stream.Close() // truncated message: the stream ends
	}
	return len(p), nil
}

var c08Codes = []string{"ABCD2345", "ABCD2346", "", "ABCD234", "abcd2345", "ÄBCD2345", "ABCD2345 ", string(make([]byte, 1024))}

func c08Ctx() (context.Context, context.CancelFunc) {
	return context.WithTimeout(context.Background(), 1500*time.Millisecond)
}

// attacker strategies for a rogue peer that does not hold the join code
var c08Strategies = []string{"random-proof", "other-code", "replay-other-session", "reflect", "reflect-role-rewritten", "wrong-version", "role-swap", "short", "long", "silence", "zero-mac", "fin-without-reply"}

// craft builds the attacker's message for a strategy. own is the exporter of the attacker's end of the
// attacked connection, seen is the honest side's message (for reflection), captured a message recorded
// from an earlier honest session with the SAME code (another TLS session).
func c08Craft(strategy string, own transfer.Conn, asRole byte, seen, captured []byte) []byte {
	nonce := make([]byte, authNonceSize)
	rand.Read(nonce)
	build := func(role byte, mac []byte) []byte {
		b := []byte{authVersion, role}
		b = append(b, nonce...)
		return append(b, mac...)
	}
	switch strategy {
	case "random-proof":
		mac := make([]byte, authMacSize)
		rand.Read(mac)
		return build(asRole, mac)
	case "other-code":
		key, _ := deriveAuthKey(own, "WRONGCODE")
		return build(asRole, computeAuthMac(key, asRole, nonce))
	case "replay-other-session":
		return captured
	case "reflect":
		return seen
	case "reflect-role-rewritten":
		if len(seen) < 2 {
			return nil
		}
		b := append([]byte(nil), seen...)
		b[1] = asRole
		return b
	case "wrong-version":
		key, _ := deriveAuthKey(own, "WRONGCODE")
		b := build(asRole, computeAuthMac(key, asRole, nonce))
		b[0] = 2
		return b
	case "role-swap":
		key, _ := deriveAuthKey(own, "WRONGCODE")
		other := authRoleSender + authRoleReceive - asRole
		return build(other, computeAuthMac(key, other, nonce))
	case "short":
		return build(asRole, make([]byte, authMacSize))[:authMsgSize-7]
	case "long":
		return append(build(asRole, make([]byte, authMacSize)), 1, 2, 3, 4, 5)
	case "zero-mac":
		return build(asRole, make([]byte, authMacSize))
	}
	return nil // silence
}

func TestVerifC08Auth(t *testing.T) {
	rec := verifkit.NewRecorder("C08", "auth")
	defer rec.Flush()
	n, err := newC08Net()
	if err != nil {
		t.Fatalf("quic listener: %v", err)
	}
	defer n.close()
	sh, nsh := verifkit.Shard()

	// a message captured from an honest session with the right code (for replay across TLS sessions)
	capture := func(code string) (senderMsg, receiverMsg []byte) {
		ctx, cancel := c08Ctx()
		defer cancel()
		d, a, cl, err := n.pair(ctx)
		if err != nil {
			return nil, nil
		}
		defer cl()
		md := &mutConn{Conn: d, mutate: func(b []byte) []byte { senderMsg = append([]byte(nil), b...); return b }}
		ma := &mutConn{Conn: a, mutate: func(b []byte) []byte { receiverMsg = append([]byte(nil), b...); return b }}
		c08RunBoth(ctx, md, ma, code, code)
		return
	}

	// (1) completeness / wrong code, honest pairs
	for i, cs := range c08Codes {
		for j, cr := range c08Codes {
			if (i*len(c08Codes)+j)%nsh != sh {
				continue
			}
			ctx, cancel := context.WithTimeout(context.Background(), 15*time.Second) // honest ends: generous on a busy machine
			d, a, cl, err := n.pair(ctx)
			if err != nil {
				cancel()
				t.Fatalf("pair: %v", err)
			}
			es, er := c08RunBoth(ctx, d, a, cs, cr)
			cl()
			cancel()
			rec.Eval()
			rec.Class("honest-pair")
			if cs == cr && ctx.Err() != nil {
				rec.Class("honest-pair-not-judged-timeout")
				continue
			}
			if cs == cr {
				if es != nil || er != nil {
					rec.Fail(t, "same-code-rejected", fmt.Sprintf("both ends hold code %q on one TLS session, sender=%v receiver=%v", cs, es, er))
				}
				rec.NonTrivial(fmt.Sprintf("pair/%d/%d", i, j))
			} else {
				if es == nil || er == nil {
					rec.Fail(t, "different-code-accepted", fmt.Sprintf("sender code %q receiver code %q: sender=%v receiver=%v", cs, cr, es, er))
				}
				rec.NonTrivial(fmt.Sprintf("pair/%d/%d", i, j))
			}
		}
	}

	// (2) every single-bit flip and every truncation of either message between honest ends holding the same code
	const code = "ABCD2345"
	alter := func(which string, fn func([]byte) []byte, what string) {
		ctx, cancel := c08Ctx()
		defer cancel()
		d, a, cl, err := n.pair(ctx)
		if err != nil {
			t.Fatalf("pair: %v", err)
		}
		defer cl()
		var md, ma transfer.Conn = d, a
		if which == "sender-msg" {
			md = &mutConn{Conn: d, mutate: fn}
		} else {
			ma = &mutConn{Conn: a, mutate: fn}
		}
		es, er := c08RunBoth(ctx, md, ma, code, code)
		rec.Eval()
		rec.Class("alteration/" + which)
		// the side that RECEIVES the altered message must reject
		if which == "sender-msg" && er == nil {
			rec.Fail(t, "altered-message-accepted", fmt.Sprintf("receiver accepted the sender's message with %s", what))
		}
		if which == "receiver-msg" && es == nil {
			rec.Fail(t, "altered-message-accepted", fmt.Sprintf("sender accepted the receiver's message with %s", what))
		}
		rec.NonTrivial(which + "/" + what)
	}
	k := 0
	for _, which := range []string{"sender-msg", "receiver-msg"} {
		for bit := 0; bit < authMsgSize*8; bit++ {
			k++
			if k%nsh != sh {
				continue
			}
			bit := bit
			alter(which, func(b []byte) []byte {
				if len(b) == authMsgSize {
					b[bit/8] ^= 1 << uint(bit%8)
				}
				return b
			}, fmt.Sprintf("bit %d of byte %d flipped", bit%8, bit/8))
		}
		for cut := 0; cut < authMsgSize; cut++ {
			k++
			if k%nsh != sh {
				continue
			}
			cut := cut
			alter(which, func(b []byte) []byte {
				if len(b) == authMsgSize {
					return b[:cut]
				}
				return b
			}, fmt.Sprintf("truncation to %d bytes", cut))
		}
	}
	rec.Extra("alterations_enumerated", k)

	// (3) attackers without the code, and relays between two TLS sessions
	capS, capR := capture(code)
	rapid.Check(t, func(rt *rapid.T) {
		position := rapid.SampledFrom([]string{"rogue-listener", "rogue-dialer", "relay"}).Draw(rt, "position")
		strategy := rapid.SampledFrom(c08Strategies).Draw(rt, "strategy")
		honestCode := rapid.SampledFrom(c08Codes[:5]).Draw(rt, "code")
		if honestCode == "" || strategy == "replay-other-session" {
			honestCode = code // the replayed proof was made with this very code, on another TLS session
		}
		ctx, cancel := c08Ctx()
		defer cancel()
		rec.Eval()
		rec.Class(position + "/" + strategy)
		switch position {
		case "rogue-listener":
			// honest sender dials; the attacker (acceptor) reads its message and answers
			d, a, cl, err := n.pair(ctx)
			if err != nil {
				rt.Fatalf("pair: %v", err)
			}
			defer cl()
			done := make(chan error, 1)
			go func() { done <- authenticateTransport(ctx, d, honestCode, authRoleSender) }()
			st, err := a.AcceptStream(ctx)
			if err == nil {
				seen := make([]byte, authMsgSize)
				io.ReadFull(st, seen)
				if msg := c08Craft(strategy, a, authRoleReceive, seen, capR); msg != nil {
					st.Write(msg)
				}
				if strategy == "fin-without-reply" {
					st.Close() // ends its stream direction cleanly without a single reply byte
				}
			}
			if err := <-done; err == nil {
				rec.Fail(rt, "rogue-listener-accepted:"+strategy, fmt.Sprintf("the honest sender (code %q) accepted a listener that does not hold the code (strategy %s)", honestCode, strategy))
				return
			}
		case "rogue-dialer":
			d, a, cl, err := n.pair(ctx)
			if err != nil {
				rt.Fatalf("pair: %v", err)
			}
			defer cl()
			done := make(chan error, 1)
			go func() { done <- authenticateTransport(ctx, a, honestCode, authRoleReceive) }()
			st, err := d.OpenStream(ctx)
			if err == nil {
				if msg := c08Craft(strategy, d, authRoleSender, capS, capS); msg != nil {
					st.Write(msg)
				} else {
					st.Write([]byte{}) // silence
				}
				if strategy == "fin-without-reply" {
					st.Close()
				}
			}
			if err := <-done; err == nil {
				rec.Fail(rt, "rogue-dialer-accepted:"+strategy, fmt.Sprintf("the honest receiver (code %q) accepted a dialer that does not hold the code (strategy %s)", honestCode, strategy))
				return
			}
		case "relay":
			// honest sender -> attacker (session 1); attacker -> honest receiver (session 2); both honest ends hold the same code
			d1, a1, cl1, err := n.pair(ctx)
			if err != nil {
				rt.Fatalf("pair: %v", err)
			}
			defer cl1()
			d2, a2, cl2, err := n.pair(ctx)
			if err != nil {
				rt.Fatalf("pair: %v", err)
			}
			defer cl2()
			sdone := make(chan error, 1)
			rdone := make(chan error, 1)
			go func() { sdone <- authenticateTransport(ctx, d1, honestCode, authRoleSender) }()
			go func() { rdone <- authenticateTransport(ctx, a2, honestCode, authRoleReceive) }()
			rewrite := rapid.SampledFrom([]string{"verbatim", "rewrite-nonce", "rewrite-role"}).Draw(rt, "relay_mode")
			tweak := func(b []byte) []byte {
				switch rewrite {
				case "rewrite-nonce":
					b[2] ^= 1
				case "rewrite-role":
					b[1] = authRoleSender + authRoleReceive - b[1]
				}
				return b
			}
			if s1, err := a1.AcceptStream(ctx); err == nil {
				m1 := make([]byte, authMsgSize)
				if _, err := io.ReadFull(s1, m1); err == nil {
					if s2, err := d2.OpenStream(ctx); err == nil {
						s2.Write(tweak(append([]byte(nil), m1...)))
						m2 := make([]byte, authMsgSize)
						if _, err := io.ReadFull(s2, m2); err == nil {
							s1.Write(tweak(append([]byte(nil), m2...)))
						}
					}
				}
			}
			es, er := <-sdone, <-rdone
			if es == nil || er == nil {
				rec.Fail(rt, "relay-accepted:"+rewrite, fmt.Sprintf("a relay between two TLS sessions (%s) was accepted: sender=%v receiver=%v (both honest ends hold code %q)", rewrite, es, er, honestCode))
				return
			}
			rec.NonTrivial(position + "/" + rewrite + "/" + honestCode)
			return
		}
		rec.NonTrivial(position + "/" + strategy + "/" + honestCode)
		if rec.SampleWanted() {
			rec.Sample(map[string]any{"attacker": position, "strategy": strategy, "honest_code": honestCode})
		}
	})
}
