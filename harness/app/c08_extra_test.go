package app

import (
	"context"
	"fmt"
	"io"
	"log/slog"
	"net"
	"strings"
	"sync"
	"testing"
	"time"

	"github.com/quic-go/quic-go"
	"github.com/sheerbytes/sheerbytes/internal/quictransport"
	"github.com/sheerbytes/sheerbytes/internal/transfer"
	"github.com/sheerbytes/sheerbytes/internal/transferquic"
	"github.com/sheerbytes/sheerbytes/internal/verifkit"
	"pgregory.net/rapid"
)

// ---- C08 (extra connections): the host's dialExtraConns and the receiver's acceptExtraConns -----
//
// The real functions that add connections to a running transfer are driven against each
// other (honest), and against peers that do not hold the join code: rogue dialers at the
// receiver's listener, rogue listeners the sender is pointed at, and a relay that terminates
// the sender's QUIC/TLS session and opens its own towards the receiver. Oracle: a
// connection ends up in the list an honest side returns only if its other end is the honest
// peer on the very same TLS session (proved by a nonce echo through the returned
// connections), and the honest side sends nothing but its authentication message to a peer
// that fails.

type c08Rogue struct {
	mu       sync.Mutex
	gotBytes int // bytes received from the honest side beyond its authentication message
}

// c08DialRogue connects to addr as a peer without the code and plays a strategy as "sender".
// It returns when the honest side has closed the connection (or the context ended).
func c08DialRogue(ctx context.Context, addr net.Addr, strategy string, captured []byte, rg *c08Rogue) error {
	cudp, err := net.ListenPacket("udp", "127.0.0.1:0")
	if err != nil {
		return err
	}
	defer cudp.Close()
	tr := &quic.Transport{Conn: cudp}
	defer tr.Close()
	qc, err := tr.Dial(ctx, addr, quictransport.ClientConfig(), quictransport.DefaultClientQUICConfig())
	if err != nil {
		return err
	}
	defer qc.CloseWithError(0, "")
	d, err := transferquic.NewDialer(qc, discardLogger()).Dial(ctx, "peer")
	if err != nil {
		return err
	}
	st, err := d.OpenStream(ctx)
	if err != nil {
		return err
	}
	msg := c08Craft(strategy, d, authRoleSender, captured, captured)
	if msg == nil {
		msg = []byte{}
	}
	st.Write(msg)
	if strategy == "fin-without-reply" {
		st.Close()
	}
	// everything the honest side sends: its own authentication message at most
	buf := make([]byte, 4096)
	total := 0
	for {
		n, err := st.Read(buf)
		total += n
		if err != nil {
			break
		}
	}
	// further streams opened by the honest side would carry application data
	actx, cancel := context.WithTimeout(ctx, 150*time.Millisecond)
	defer cancel()
	if st2, err := d.AcceptStream(actx); err == nil {
		n, _ := io.ReadFull(st2, buf[:1])
		total += authMsgSize + 1 + n
	}
	rg.mu.Lock()
	if total > authMsgSize {
		rg.gotBytes += total - authMsgSize
	}
	rg.mu.Unlock()
	return nil
}

// c08ProveSame sends a nonce over every connection the sender returned and reads it from the
// connections the receiver returned; it reports how many arrived.
func c08ProveSame(ctx context.Context, sconns []dumbExtraConn, rconns []transfer.Conn) int {
	got := make(chan string, len(rconns)+1)
	for _, rc := range rconns {
		go func(rc transfer.Conn) {
			st, err := rc.AcceptStream(ctx)
			if err != nil {
				got <- ""
				return
			}
			b := make([]byte, 8)
			if _, err := io.ReadFull(st, b); err != nil {
				got <- ""
				return
			}
			got <- string(b)
		}(rc)
	}
	want := map[string]bool{}
	for i, sc := range sconns {
		st, err := sc.conn.OpenStream(ctx)
		if err != nil {
			continue
		}
		n := fmt.Sprintf("nonce%03d", i)
		want[n] = true
		st.Write([]byte(n))
	}
	ok := 0
	for range rconns {
		if v := <-got; v != "" && want[v] {
			ok++
		}
	}
	return ok
}

func discardLogger() *slog.Logger { return slog.New(slog.NewTextHandler(io.Discard, nil)) }

func TestVerifC08Extra(t *testing.T) {
	rec := verifkit.NewRecorder("C08", "extra")
	defer rec.Flush()
	const code = "ABCD2345"
	// a proof captured on another TLS session with the right code (for replays)
	capNet, err := newC08Net()
	if err != nil {
		t.Fatalf("quic listener: %v", err)
	}
	var capS []byte
	{
		ctx, cancel := c08Ctx()
		d, a, cl, err := capNet.pair(ctx)
		if err == nil {
			md := &mutConn{Conn: d, mutate: func(b []byte) []byte { capS = append([]byte(nil), b...); return b }}
			c08RunBoth(ctx, md, a, code, code)
			cl()
		}
		cancel()
	}
	capNet.close()
	if len(capS) != authMsgSize {
		t.Fatalf("could not capture an honest proof")
	}

	rapid.Check(t, func(rt *rapid.T) {
		scenario := rapid.SampledFrom([]string{"honest", "rogue-dialer", "rogue-listener", "relay"}).Draw(rt, "scenario")
		honest := rapid.IntRange(0, 3).Draw(rt, "honest_connections")
		strategy := rapid.SampledFrom(c08Strategies).Draw(rt, "strategy")
		senderCode := code
		if scenario == "honest" && rapid.IntRange(0, 3).Draw(rt, "wrong_code") == 0 {
			senderCode = "ABCD2346"
		}
		rec.Eval()
		rec.Class(scenario)
		desc := fmt.Sprintf("scenario=%s honest-connections-first=%d strategy=%s sender-code=%s", scenario, honest, strategy, senderCode)

		// ctx bounds the calls under test (a silent peer makes them wait for it); the proof
		// that returned connections are genuine runs under its own context afterwards
		budget := 1500 * time.Millisecond
		if scenario == "honest" {
			budget = 20 * time.Second // nobody is silent here; on a busy machine four handshakes can take seconds
		}
		ctx, cancel := context.WithTimeout(context.Background(), budget)
		defer cancel()
		pctx, pcancel := context.WithTimeout(context.Background(), 6*time.Second)
		defer pcancel()
		rn, err := newC08Net() // the receiver's listener
		if err != nil {
			rt.Fatalf("listener: %v", err)
		}
		defer rn.close()
		recvr := &snapshotReceiver{joinCode: code, logger: rn.logger}
		sender := &SnapshotSender{joinCode: senderCode, logger: rn.logger}
		remote := rn.addr.(*net.UDPAddr)

		type rres struct {
			conns []transfer.Conn
			err   error
		}
		accept := func(n int) chan rres {
			ch := make(chan rres, 1)
			go func() {
				c, err := recvr.acceptExtraConns(ctx, rn.lt, n)
				ch <- rres{c, err}
			}()
			return ch
		}
		closeAll := func(sc []dumbExtraConn, rc []transfer.Conn) {
			for _, c := range sc {
				c.close()
			}
			for _, c := range rc {
				c.Close()
			}
		}

		switch scenario {
		case "honest":
			n := honest + 1
			ach := accept(n)
			sconns, serr := sender.dialExtraConns(ctx, "peer", remote, quictransport.ClientConfig(), quictransport.DefaultClientQUICConfig(), n)
			var r rres
			if senderCode != code {
				cancel() // the receiver stops at the first failure; do not wait for its accept time-out
			}
			r = <-ach
			defer closeAll(sconns, r.conns)
			if senderCode != code {
				if len(sconns) != 0 || len(r.conns) != 0 {
					rec.Fail(rt, "extra:different-code-accepted", fmt.Sprintf("sender holds %q, receiver %q: sender kept %d extra connections, receiver %d | %s", senderCode, code, len(sconns), len(r.conns), desc))
					return
				}
				rec.NonTrivial("wrong-code/" + fmt.Sprint(n))
				return
			}
			if (len(sconns) != n || len(r.conns) != n) && (strings.Contains(fmt.Sprint(serr, r.err), "deadline exceeded") || strings.Contains(fmt.Sprint(serr, r.err), "timeout")) {
				rec.Class("honest-not-judged-timeout") // ran out of time, not rejected
				return
			}
			if len(sconns) != n || len(r.conns) != n {
				rec.Fail(rt, "extra:same-code-rejected", fmt.Sprintf("both ends hold the code, %d extra connections requested: sender got %d (%v), receiver %d (%v) | %s", n, len(sconns), serr, len(r.conns), r.err, desc))
				return
			}
			if ok := c08ProveSame(pctx, sconns, r.conns); ok != n {
				rec.Fail(rt, "extra:not-same-session", fmt.Sprintf("only %d of %d returned connections carry the sender's nonce to the receiver | %s", ok, n, desc))
				return
			}
			rec.NonTrivial(fmt.Sprintf("honest/%d", n))

		case "rogue-dialer":
			// `honest` genuine connections first, then one peer without the code
			ach := accept(honest + 1)
			sconns, _ := sender.dialExtraConns(ctx, "peer", remote, quictransport.ClientConfig(), quictransport.DefaultClientQUICConfig(), honest)
			rg := &c08Rogue{}
			rdone := make(chan error, 1)
			go func() { rdone <- c08DialRogue(ctx, rn.addr, strategy, capS, rg) }()
			r := <-ach
			defer closeAll(sconns, r.conns)
			if len(sconns) != honest {
				rec.Class("honest-prefix-incomplete")
				return
			}
			if len(r.conns) > honest {
				rec.Fail(rt, "extra:rogue-dialer-accepted:"+strategy, fmt.Sprintf("the receiver returned %d extra connections although only %d were opened by the holder of the code (the other one: a dialer playing %q) | %s", len(r.conns), honest, strategy, desc))
				return
			}
			select {
			case <-rdone:
			case <-time.After(2 * time.Second):
			}
			rg.mu.Lock()
			extraBytes := rg.gotBytes
			rg.mu.Unlock()
			if extraBytes > 0 {
				rec.Fail(rt, "extra:bytes-before-auth", fmt.Sprintf("the receiver sent %d bytes beyond its authentication message to a dialer that failed authentication | %s", extraBytes, desc))
				return
			}
			if ok := c08ProveSame(pctx, sconns, r.conns); ok != len(r.conns) {
				rec.Fail(rt, "extra:not-same-session", fmt.Sprintf("%d of %d returned connections carry the sender's nonce | %s", ok, len(r.conns), desc))
				return
			}
			rec.NonTrivial(fmt.Sprintf("rogue-dialer/%s/%d", strategy, honest))

		case "rogue-listener", "relay":
			// the sender is pointed at the attacker's listener
			mn, err := newC08Net()
			if err != nil {
				rt.Fatalf("listener: %v", err)
			}
			defer mn.close()
			var ach chan rres
			if scenario == "relay" {
				ach = accept(1)
			}
			var mu sync.Mutex
			appBytes := 0
			go func() {
				for {
					a, err := mn.lt.Accept(ctx)
					if err != nil {
						return
					}
					go func(a transfer.Conn) {
						st, err := a.AcceptStream(ctx)
						if err != nil {
							return
						}
						seen := make([]byte, authMsgSize)
						if _, err := io.ReadFull(st, seen); err != nil {
							return
						}
						if scenario == "relay" {
							// own TLS session towards the receiver; authentication messages relayed verbatim
							cudp, err := net.ListenPacket("udp", "127.0.0.1:0")
							if err != nil {
								return
							}
							defer cudp.Close()
							tr := &quic.Transport{Conn: cudp}
							defer tr.Close()
							qc, err := tr.Dial(ctx, rn.addr, quictransport.ClientConfig(), quictransport.DefaultClientQUICConfig())
							if err != nil {
								return
							}
							d2, _ := transferquic.NewDialer(qc, rn.logger).Dial(ctx, "peer")
							s2, err := d2.OpenStream(ctx)
							if err != nil {
								return
							}
							s2.Write(seen)
							m2 := make([]byte, authMsgSize)
							if _, err := io.ReadFull(s2, m2); err == nil {
								st.Write(m2)
							}
						} else if msg := c08Craft(strategy, a, authRoleReceive, seen, capS); msg != nil {
							st.Write(msg)
						} else if strategy == "fin-without-reply" {
							st.Close()
						}
						// anything further from the honest sender is application data
						buf := make([]byte, 64)
						n, _ := st.Read(buf)
						actx, c2 := context.WithTimeout(ctx, 150*time.Millisecond)
						if st2, err := a.AcceptStream(actx); err == nil {
							k, _ := st2.Read(buf)
							n += 1 + k
						}
						c2()
						mu.Lock()
						appBytes += n
						mu.Unlock()
					}(a)
				}
			}()
			sconns, _ := sender.dialExtraConns(ctx, "peer", mn.addr.(*net.UDPAddr), quictransport.ClientConfig(), quictransport.DefaultClientQUICConfig(), 1+honest%2)
			var r rres
			if ach != nil {
				select {
				case r = <-ach:
				case <-time.After(1200 * time.Millisecond):
					cancel()
					r = <-ach
				}
			}
			defer closeAll(sconns, r.conns)
			if len(sconns) != 0 || len(r.conns) != 0 {
				rec.Fail(rt, "extra:"+scenario+"-accepted", fmt.Sprintf("the sender kept %d and the receiver %d extra connections although the peer in between does not hold the code (%s) | %s", len(sconns), len(r.conns), strategy, desc))
				return
			}
			time.Sleep(200 * time.Millisecond)
			mu.Lock()
			ab := appBytes
			mu.Unlock()
			if ab > 0 {
				rec.Fail(rt, "extra:bytes-before-auth", fmt.Sprintf("the sender sent %d bytes beyond its authentication message to a listener that failed authentication | %s", ab, desc))
				return
			}
			if scenario == "relay" {
				rec.NonTrivial("relay/" + fmt.Sprint(1+honest%2))
			} else {
				rec.NonTrivial("rogue-listener/" + strategy)
			}
		}
		if rec.SampleWanted() {
			rec.Sample(map[string]any{"case": desc})
		}
	})
}
