//go:build verif

package app

// Export shims for the /verif harness (compiled in through the build overlay only).

// VerifBuildPathResolver exposes the production resolver used with manifest.ScanPaths.
func VerifBuildPathResolver(paths []string) (func(relPath string) string, error) {
	return buildPathResolver(paths)
}

// VerifComputeParallelBudget exposes the production stream budget.
func VerifComputeParallelBudget(fileCount, requestedStreams, connections int, allowStriping bool) (int, int) {
	return computeParallelBudget(fileCount, requestedStreams, connections, allowStriping)
}

// VerifBuildWebSocketURL exposes the URL builder the clients use to connect to the signaling server.
func VerifBuildWebSocketURL(serverURL, joinCode, peerID, role string, maxReceivers int) (string, error) {
	return buildWebSocketURL(serverURL, joinCode, peerID, role, maxReceivers)
}
