package app

import (
	"bytes"
	"context"
	"encoding/binary"
	"fmt"
	"net"
	"runtime"
	"strings"
	"testing"
	"time"

	"github.com/sheerbytes/sheerbytes/internal/transfer"
	"github.com/sheerbytes/sheerbytes/internal/verifkit"
	"pgregory.net/rapid"
)

// ---- C15 (unit 'dumb'): the benchmark ("dumb") receive mode of the applications ---------------
//
// `thru join --dumb` receives one length-prefixed blob per connection
// (recvDumbDiscardMulti -> recvDumbDiscard per connection). A hostile or broken sender puts
// arbitrary bytes on each connection's stream and ends it (or closes the connection without
// opening a stream). Oracle (C15): the receiving function never panics, returns within the
// watchdog once every input has ended, and returns an error whenever a stream ended inside
// its record (judged by an independent parser of the three-field record).

type dumbConn struct{ c *verifkit.MemConn }

func (v dumbConn) OpenStream(ctx context.Context) (transfer.Stream, error) {
	s, err := v.c.OpenStreamRaw(ctx)
	if err != nil {
		return nil, err
	}
	return s, nil
}
func (v dumbConn) AcceptStream(ctx context.Context) (transfer.Stream, error) {
	s, err := v.c.AcceptStreamRaw(ctx)
	if err != nil {
		return nil, err
	}
	return s, nil
}
func (v dumbConn) RemoteAddr() net.Addr { return v.c.RemoteAddr() }
func (v dumbConn) Close() error         { return v.c.Close() }

type dumbInput struct {
	Kind  string // valid, truncated, garbage, huge-size, no-stream
	Bytes []byte
	Delay int // ms before the stream is ended
}

// dumbComplete is the reference parser: does b hold a complete record?
func dumbComplete(b []byte) bool {
	if len(b) < 2 {
		return false
	}
	nl := int(binary.BigEndian.Uint16(b))
	if len(b) < 2+nl+8 {
		return false
	}
	size := int64(binary.BigEndian.Uint64(b[2+nl:]))
	return size >= 0 && int64(len(b)-2-nl-8) >= size
}

func genDumbInput(t *rapid.T, i int) dumbInput {
	in := dumbInput{Kind: rapid.SampledFrom([]string{"valid", "valid", "truncated", "truncated", "garbage", "huge-size", "no-stream"}).Draw(t, fmt.Sprintf("kind%d", i))}
	in.Delay = rapid.SampledFrom([]int{0, 0, 1, 5, 20}).Draw(t, fmt.Sprintf("delay%d", i))
	name := rapid.SliceOfN(rapid.Byte(), 0, 40).Draw(t, fmt.Sprintf("name%d", i))
	size := rapid.IntRange(0, 3000).Draw(t, fmt.Sprintf("size%d", i))
	var buf bytes.Buffer
	if len(name) == 0 {
		name = []byte("mem.bin")
	}
	if err := sendDumbDataWriter(&buf, name, int64(size)); err != nil {
		t.Fatalf("production writer: %v", err)
	}
	full := buf.Bytes()
	switch in.Kind {
	case "valid":
		in.Bytes = full
	case "truncated":
		cut := rapid.IntRange(0, len(full)-1).Draw(t, fmt.Sprintf("cut%d", i))
		if rapid.Bool().Draw(t, fmt.Sprintf("cuthdr%d", i)) && cut > 2+len(name)+8 {
			cut = cut % (2 + len(name) + 8)
		}
		in.Bytes = full[:cut]
	case "garbage":
		in.Bytes = rapid.SliceOfN(rapid.Byte(), 0, 64).Draw(t, fmt.Sprintf("garbage%d", i))
	case "huge-size":
		b := append([]byte{}, full[:2+len(name)]...)
		var sz [8]byte
		binary.BigEndian.PutUint64(sz[:], rapid.SampledFrom([]uint64{1 << 40, 1<<63 - 1, 1 << 63, ^uint64(0), uint64(size) + 1}).Draw(t, fmt.Sprintf("hsize%d", i)))
		in.Bytes = append(append(b, sz[:]...), full[2+len(name)+8:]...)
	}
	return in
}

func TestVerifC15Dumb(t *testing.T) {
	rec := verifkit.NewRecorder("C15", "dumb")
	defer rec.Flush()
	rapid.Check(t, func(rt *rapid.T) {
		n := rapid.IntRange(1, 4).Draw(rt, "conns")
		var ins []dumbInput
		for i := 0; i < n; i++ {
			ins = append(ins, genDumbInput(rt, i))
		}
		var recvConns []transfer.Conn
		var peers []*verifkit.MemConn
		for i := 0; i < n; i++ {
			a, b := verifkit.NewMemPair(verifkit.MemOptions{})
			peers = append(peers, a)
			recvConns = append(recvConns, dumbConn{b})
		}
		defer func() {
			for _, a := range peers {
				a.Close()
			}
			for _, c := range recvConns {
				c.Close()
			}
		}()
		// the hostile sender
		for i := range ins {
			go func(in dumbInput, a *verifkit.MemConn) {
				if in.Kind == "no-stream" {
					time.Sleep(time.Duration(in.Delay) * time.Millisecond)
					a.Close()
					return
				}
				s, err := a.OpenStreamRaw(context.Background())
				if err != nil {
					return
				}
				s.Write(in.Bytes)
				time.Sleep(time.Duration(in.Delay) * time.Millisecond)
				s.Close()
			}(ins[i], peers[i])
		}
		type outcome struct {
			err      error
			panicked any
		}
		done := make(chan outcome, 1)
		go func() {
			var o outcome
			defer func() {
				if r := recover(); r != nil {
					o.panicked = r
				}
				done <- o
			}()
			o.err = recvDumbDiscardMulti(context.Background(), recvConns, func(string, int64, int64) {})
		}()
		invalid, nostream := 0, 0
		var kinds []string
		for _, in := range ins {
			kinds = append(kinds, in.Kind)
			if in.Kind == "no-stream" {
				nostream++
			} else if !dumbComplete(in.Bytes) {
				invalid++
			}
		}
		desc := fmt.Sprintf("%d connections %v lengths %v", n, kinds, func() []int {
			var l []int
			for _, in := range ins {
				l = append(l, len(in.Bytes))
			}
			return l
		}())
		rec.Eval()
		for _, k := range kinds {
			rec.Class("stream/" + k)
		}
		select {
		case o := <-done:
			if o.panicked != nil {
				rec.Fail(rt, "panic:dumb-receiver", fmt.Sprintf("%v | %s", o.panicked, desc))
				return
			}
			if invalid+nostream > 0 && o.err == nil {
				rec.Fail(rt, "no-error:dumb-receiver", "a stream ended inside its record (or never came) but the receiver returned nil | "+desc)
				return
			}
			if o.err != nil {
				rec.Class("outcome/error")
			} else {
				rec.Class("outcome/nil")
			}
		case <-time.After(20 * time.Second):
			buf := make([]byte, 1<<20)
			buf = buf[:runtime.Stack(buf, true)]
			var keep []string
			for _, g := range strings.Split(string(buf), "\n\n") {
				if strings.Contains(g, "recvDumbDiscard") {
					keep = append(keep, g)
				}
			}
			rec.Fail(rt, "hang:dumb-receiver", "every input had ended, the receiver did not return within 20 s | "+desc+"\n"+strings.Join(keep, "\n\n"))
			return
		}
		if invalid+nostream >= 2 || (n >= 2 && invalid+nostream >= 1) {
			rec.Class("several-connections-with-a-broken-one")
			rec.NonTrivial(desc)
		}
		if rec.SampleWanted() {
			rec.Sample(map[string]any{"case": desc})
		}
	})
}
