package app

import (
	"fmt"
	"os"
	"path/filepath"
	"sort"
	"strings"
	"testing"

	"github.com/sheerbytes/sheerbytes/internal/verifkit"
	"pgregory.net/rapid"
)

// ---- C07 (application layer): the root name of a manifest offer ------------------------------
//
// Before any transfer starts the receiving application looks for, and on the user's request
// deletes, resume metadata of an earlier run; the directories it inspects are derived from
// the root name the *sender* put into its manifest offer (hasResumeData / clearResumeData).
// The root name is peer-controlled, so whatever it is, nothing outside the output directory
// may be deleted.

// c07RootGrammar draws hostile and ordinary root names.
func c07Root(t *rapid.T) string {
	up := rapid.IntRange(0, 6).Draw(t, "up")
	var segs []string
	for i := 0; i < up; i++ {
		segs = append(segs, rapid.SampledFrom([]string{"..", "..", "x/../..", "./.."}).Draw(t, fmt.Sprintf("seg%d", i)))
	}
	for i := 0; i < rapid.IntRange(0, 2).Draw(t, "down"); i++ {
		segs = append(segs, rapid.SampledFrom([]string{"l1", "l2", "victim", "out", "a b", "é", ".", "out-private", "outx", "out.old"}).Draw(t, fmt.Sprintf("d%d", i)))
	}
	s := strings.Join(segs, "/")
	switch rapid.IntRange(0, 11).Draw(t, "form") {
	case 0:
		s = "/" + s
	case 1:
		s = s + "/"
	case 2:
		s = " " + s + " "
	case 3:
		s = strings.ReplaceAll(s, "/", "//")
	case 4: // the other slash flavour in front, behind, or mixed in
		s = "\\" + s
	case 5:
		s = "\\" + s + "\\"
	case 6:
		s = "/\\" + s
	case 7:
		s = "\\/" + s
	}
	return s
}

func c07Snapshot(root, except string) []string {
	var out []string
	filepath.Walk(root, func(p string, fi os.FileInfo, err error) error {
		if err != nil {
			return nil
		}
		if p == except || strings.HasPrefix(p, except+string(os.PathSeparator)) {
			return nil
		}
		out = append(out, fmt.Sprintf("%s|%v|%d", strings.TrimPrefix(p, root), fi.IsDir(), fi.Size()))
		return nil
	})
	sort.Strings(out)
	return out
}

func TestVerifC07AppRoot(t *testing.T) {
	rec := verifkit.NewRecorder("C07", "app-root")
	defer rec.Flush()
	rapid.Check(t, func(rt *rapid.T) {
		root := c07Root(rt)
		absolute := rapid.IntRange(0, 5).Draw(rt, "absolute_victim") == 0
		sbx := verifkit.ScratchDir(t, "c07app")
		defer os.RemoveAll(sbx)
		// sandbox: sbx/l1/l2/l3/out ; at every level (and in siblings) a metadata directory with a
		// sidecar-looking file, as an earlier transfer into THAT directory would have left it
		out := filepath.Join(sbx, "l1", "l2", "l3", "out")
		os.MkdirAll(out, 0755)
		plant := func(dir string) {
			md := filepath.Join(dir, ".thruflux_resumedata")
			os.MkdirAll(md, 0755)
			os.WriteFile(filepath.Join(md, "0123456789abcdef.sbxmap"), []byte("sidecar"), 0644)
		}
		for _, d := range []string{sbx, filepath.Join(sbx, "l1"), filepath.Join(sbx, "l1", "l2"), filepath.Join(sbx, "l1", "l2", "l3"),
			filepath.Join(sbx, "l1", "l2", "l3", "victim"), filepath.Join(sbx, "l1", "l2", "victim"), filepath.Join(sbx, "l1", "victim"), out, filepath.Join(out, "l1"),
			// siblings whose names merely begin like the output directory's
			filepath.Join(sbx, "l1", "l2", "l3", "out-private"), filepath.Join(sbx, "l1", "l2", "l3", "outx"), filepath.Join(sbx, "l1", "l2", "l3", "out.old")} {
			os.MkdirAll(d, 0755)
			plant(d)
		}
		if absolute {
			root = filepath.Join(sbx, "l1", "victim") // an absolute path as root name
			if rapid.Bool().Draw(rt, "trailing") {
				root += "/"
			}
		}
		before := c07Snapshot(sbx, out)
		found := hasResumeData(out, root)
		err := clearResumeData(out, root)
		after := c07Snapshot(sbx, out)
		rec.Eval()
		escapes := strings.Contains(root, "..") || filepath.IsAbs(strings.TrimSpace(root))
		if escapes {
			rec.Class("root-with-parent-references-or-absolute")
		} else {
			rec.Class("plain-root")
		}
		if strings.Join(before, "\n") != strings.Join(after, "\n") {
			var gone []string
			am := map[string]bool{}
			for _, a := range after {
				am[a] = true
			}
			for _, b := range before {
				if !am[b] {
					gone = append(gone, b)
				}
			}
			rec.Fail(rt, "escape-via=offer.root_name", fmt.Sprintf("clearResumeData(out, %q) changed the filesystem outside the output directory (hasResumeData=%v, err=%v): missing afterwards %v", root, found, err, gone))
			return
		}
		if _, serr := os.Stat(filepath.Join(out, ".thruflux_resumedata")); serr != nil {
			rec.Class("own-metadata-cleared")
		}
		if escapes {
			rec.NonTrivial(root)
		}
		if rec.SampleWanted() {
			rec.Sample(map[string]any{"root_name": root, "hasResumeData": found})
		}
	})
}
