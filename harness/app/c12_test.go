package app

import (
	"context"
	"errors"
	"fmt"
	"io"
	"log/slog"
	"sort"
	"strings"
	"sync"
	"testing"
	"time"

	"github.com/sheerbytes/sheerbytes/internal/verifhook"
	"github.com/sheerbytes/sheerbytes/internal/verifkit"
	"github.com/sheerbytes/sheerbytes/pkg/protocol"
	"pgregory.net/rapid"
)

// ---- C12: the host's admission queue ------------------------------------------------------

type c12Event struct {
	Kind string // join accept leave success failure return cleanup
	Peer string
	Inst int           // instance selector for success/failure/return
	Adv  time.Duration // clock advance for cleanup
}

func (e c12Event) String() string {
	switch e.Kind {
	case "success", "failure", "return", "failure-reaccept":
		return fmt.Sprintf("%s(#%d)", e.Kind, e.Inst)
	case "cleanup":
		return fmt.Sprintf("cleanup(+%s)", e.Adv)
	}
	return fmt.Sprintf("%s(%s)", e.Kind, e.Peer)
}

type c12Inst struct {
	id               int
	peer             string
	ctx              context.Context
	release          chan error
	released         bool
	exited           bool
	cancelledOnEntry bool
}

type c12Harness struct {
	s       *SnapshotSender
	mu      sync.Mutex
	insts   []*c12Inst
	exits   int
	now     time.Time
	maxRecv int
	// model
	waiting   []string // peers that accepted and wait for a slot, in accept order
	started   map[int]bool
	unsettled int
}

func newC12Harness(maxRecv int) *c12Harness {
	h := &c12Harness{now: time.Unix(1_700_000_000, 0), maxRecv: maxRecv, started: map[int]bool{}}
	s := newTestSender(h.now, maxRecv)
	s.now = func() time.Time { h.mu.Lock(); defer h.mu.Unlock(); return h.now }
	s.logger = slog.New(slog.NewTextHandler(io.Discard, nil))
	s.transferFn = func(ctx context.Context, peerID string) error {
		in := &c12Inst{peer: peerID, ctx: ctx, release: make(chan error, 1), cancelledOnEntry: ctx.Err() != nil}
		h.mu.Lock()
		in.id = len(h.insts)
		h.insts = append(h.insts, in)
		h.mu.Unlock()
		return <-in.release
	}
	h.s = s
	return h
}

// live returns the instances that entered and were not released; alive additionally excludes cancelled ones.
func (h *c12Harness) live() (live, alive []*c12Inst) {
	h.mu.Lock()
	defer h.mu.Unlock()
	for _, in := range h.insts {
		if !in.released {
			live = append(live, in)
			if in.ctx.Err() == nil {
				alive = append(alive, in)
			}
		}
	}
	return
}

// settle waits until the sender is quiescent: every released instance's runTransfer has exited and
// every slot in s.active belongs to an entered, unreleased instance.
func (h *c12Harness) settle() bool {
	deadline := time.Now().Add(500 * time.Millisecond)
	stable := 0
	for time.Now().Before(deadline) {
		ok := true
		h.mu.Lock()
		rel := 0
		byPeer := map[string]int{}
		for _, in := range h.insts {
			if in.released {
				rel++
			} else if in.ctx.Err() == nil {
				// (a cancelled run that has not returned yet does not stand for the slot of a
				// newer run of the same receiver whose goroutine has not entered the stub yet)
				byPeer[in.peer]++
			}
		}
		if h.exits != rel {
			ok = false
		}
		h.mu.Unlock()
		h.s.mu.Lock()
		for p := range h.s.active {
			if byPeer[p] == 0 {
				ok = false
			}
		}
		h.s.mu.Unlock()
		if ok {
			stable++
			if stable >= 3 {
				return true
			}
		} else {
			stable = 0
		}
		time.Sleep(100 * time.Microsecond)
	}
	return false
}

// heldWithoutTransfer names a receiver that holds a slot while no transfer runs for it and all
// released transfer functions have returned ("" if there is none).
func (h *c12Harness) heldWithoutTransfer() string {
	h.mu.Lock()
	rel := 0
	byPeer := map[string]int{}
	for _, in := range h.insts {
		if in.released {
			rel++
		} else {
			byPeer[in.peer]++
		}
	}
	exited := h.exits == rel
	h.mu.Unlock()
	if !exited {
		return ""
	}
	h.s.mu.Lock()
	defer h.s.mu.Unlock()
	var names []string
	for p := range h.s.active {
		if byPeer[p] == 0 {
			names = append(names, p)
		}
	}
	sort.Strings(names)
	return strings.Join(names, ",")
}

func (h *c12Harness) apply(e c12Event) string {
	ctx := context.Background()
	switch e.Kind {
	case "join":
		h.s.handlePeerJoined(e.Peer)
	case "accept":
		h.s.mu.Lock()
		st := h.s.receivers[e.Peer]
		transferring := st != nil && st.Status == ReceiverStatusTransferring
		h.s.mu.Unlock()
		h.s.handleManifestAccept(e.Peer, protocol.ManifestAccept{})
		if !transferring {
			found := false
			for _, w := range h.waiting {
				if w == e.Peer {
					found = true
				}
			}
			if !found {
				h.waiting = append(h.waiting, e.Peer)
			}
		}
		h.s.maybeStartTransfers(ctx)
	case "leave":
		h.s.handlePeerLeft(e.Peer)
		var w []string
		for _, p := range h.waiting {
			if p != e.Peer {
				w = append(w, p)
			}
		}
		h.waiting = w
	case "success", "failure", "return", "failure-reaccept":
		live, _ := h.live()
		var cands []*c12Inst
		for _, in := range live {
			if (e.Kind == "return") == (in.ctx.Err() != nil) {
				cands = append(cands, in)
			}
		}
		if len(cands) == 0 {
			return "skip"
		}
		in := cands[e.Inst%len(cands)]
		h.mu.Lock()
		in.released = true
		h.mu.Unlock()
		switch e.Kind {
		case "failure-reaccept":
			// The failing run records its failure in two steps (it lets go of the sender's lock
			// in between to note the stage under the progress lock); the receiver's next accept
			// is handled exactly in between. The progress lock is held for at most 40 ms to park
			// the run there.
			var once sync.Once
			h.s.progressMu.Lock()
			unlock := func() { once.Do(h.s.progressMu.Unlock) }
			timer := time.AfterFunc(40*time.Millisecond, unlock)
			in.release <- errors.New("transfer failed (injected, accept follows at once)")
			time.Sleep(3 * time.Millisecond)
			r := h.apply(c12Event{Kind: "accept", Peer: in.peer})
			timer.Stop()
			unlock()
			return r
		case "success":
			in.release <- nil
		case "failure":
			// the transfer code derives contexts of its own and wraps their errors: a failure may
			// look like a cancellation although this run's context is alive
			switch (e.Inst / 2) % 2 {
			case 0:
				in.release <- errors.New("transfer failed (injected)")
			default:
				if e.Inst%2 == 0 {
					in.release <- fmt.Errorf("stream read failed (injected): %w", context.Canceled)
				} else {
					in.release <- fmt.Errorf("dial failed (injected): %w", context.DeadlineExceeded)
				}
			}
		case "return":
			in.release <- in.ctx.Err()
		}
	case "signals":
		// A transferring receiver sends more signaling messages than its transfer takes (the
		// host's single envelope loop hands them over; it must never wait for a transfer to
		// read them - everything after, leaves and accepts included, would wait with it).
		doneSig := make(chan struct{})
		go func() {
			defer close(doneSig)
			for i := 0; i < 70; i++ {
				env, _ := protocol.NewEnvelope(protocol.TypeIceCandidate, protocol.NewMsgID(), protocol.IceCandidate{Candidate: fmt.Sprintf("127.0.0.1:%d", 1000+i)})
				env.From = e.Peer
				h.s.handleEnvelope(ctx, env)
			}
		}()
		select {
		case <-doneSig:
		case <-time.After(8 * time.Second):
			return "envelope-loop-blocked"
		}
	case "cleanup":
		h.mu.Lock()
		h.now = h.now.Add(e.Adv)
		h.mu.Unlock()
		h.s.cleanup()
		h.s.maybeStartTransfers(ctx)
	}
	return ""
}

// check verifies the invariants after an event; returns signature and detail.
func (h *c12Harness) check(e c12Event) (string, string) {
	settled := false
	for i := 0; i < 12 && !settled; i++ { // up to ~6 s under heavy load
		settled = h.settle()
	}
	if !settled {
		// One way of never coming to rest is itself the violation: every transfer function
		// that was told to return has returned, and yet a slot is held for a receiver no
		// transfer is running for. A slow machine can show that for a moment (a started
		// goroutine that has not reached the transfer function yet); it is only reported
		// when it persists for another 20 s.
		if held := h.heldWithoutTransfer(); held != "" {
			deadline := time.Now().Add(20 * time.Second)
			for time.Now().Before(deadline) && !settled {
				settled = h.settle()
			}
			if !settled {
				if again := h.heldWithoutTransfer(); again == held {
					return "slot-held-without-running-transfer", fmt.Sprintf("after %s: a slot stays taken for receiver %s although every transfer function that was released has returned and none is running for it (26 s)", e, held)
				}
			}
		}
	}
	if !settled {
		// no verdict from a state that has not come to rest (slow machine): the invariants below
		// compare the model with what the sender has done *so far*
		h.unsettled++
		return "", ""
	}
	live, alive := h.live()
	if len(alive) > h.maxRecv {
		var ps []string
		for _, in := range alive {
			ps = append(ps, fmt.Sprintf("#%d:%s", in.id, in.peer))
		}
		return "more-than-max-receivers", fmt.Sprintf("%d transfers run at once (max-receivers %d): %v", len(alive), h.maxRecv, ps)
	}
	h.mu.Lock()
	for _, in := range h.insts {
		if in.cancelledOnEntry {
			h.mu.Unlock()
			return "started-with-cancelled-context", fmt.Sprintf("transfer #%d for %s was started with an already cancelled context", in.id, in.peer)
		}
	}
	h.mu.Unlock()
	// newly started instances must be the head of the waiting list
	var newly []string
	for _, in := range live {
		if !h.started[in.id] {
			h.started[in.id] = true
			newly = append(newly, in.peer)
		}
	}
	h.mu.Lock()
	for _, in := range h.insts {
		if in.released && !h.started[in.id] {
			h.started[in.id] = true
			newly = append(newly, in.peer)
		}
	}
	h.mu.Unlock()
	if len(newly) > 0 {
		if len(newly) > len(h.waiting) {
			return "started-without-waiting", fmt.Sprintf("transfers started for %v but only %v were waiting", newly, h.waiting)
		}
		head := append([]string(nil), h.waiting[:len(newly)]...)
		a, b := append([]string(nil), newly...), append([]string(nil), head...)
		sort.Strings(a)
		sort.Strings(b)
		if strings.Join(a, ",") != strings.Join(b, ",") {
			return "not-started-in-accept-order", fmt.Sprintf("transfers started for %v while the waiting order was %v", newly, h.waiting)
		}
		h.waiting = h.waiting[len(newly):]
	}
	// state consistency
	h.s.mu.Lock()
	defer h.s.mu.Unlock()
	inQueue := map[string]int{}
	for _, p := range h.s.queue {
		inQueue[p]++
		if inQueue[p] > 1 {
			return "queued-twice", fmt.Sprintf("%s appears twice in the queue %v", p, h.s.queue)
		}
	}
	if e.Kind == "cleanup" {
		// the statement does not say what an idle-cleanup drops: resynchronise, order must be preserved
		var w []string
		for _, p := range h.waiting {
			if inQueue[p] > 0 {
				w = append(w, p)
			}
		}
		h.waiting = w
	}
	if strings.Join(h.s.queue, ",") != strings.Join(h.waiting, ",") {
		return "queue-order", fmt.Sprintf("queue is %v, accept order of the waiting receivers is %v", h.s.queue, h.waiting)
	}
	alivePeers := map[string]int{}
	for _, in := range alive {
		alivePeers[in.peer]++
	}
	for p, st := range h.s.receivers {
		states := 0
		if inQueue[p] > 0 {
			states++
		}
		if h.s.active[p] != nil {
			states++
		}
		if st.Status == ReceiverStatusDone || st.Status == ReceiverStatusFailed {
			states++
		}
		if states > 1 {
			return "receiver-in-two-states", fmt.Sprintf("%s: status=%s queued=%v active=%v", p, st.Status, inQueue[p] > 0, h.s.active[p] != nil)
		}
		if inQueue[p] > 0 && st.Status != ReceiverStatusQueued {
			return "status-mismatch", fmt.Sprintf("%s is in the queue but has status %s", p, st.Status)
		}
		if st.Status == ReceiverStatusTransferring && alivePeers[p] == 0 && settled {
			return "transferring-without-transfer", fmt.Sprintf("%s has status TRANSFERRING but no transfer is running for it", p)
		}
		if alivePeers[p] > 0 && st.Status != ReceiverStatusTransferring && settled {
			return "running-transfer-not-transferring", fmt.Sprintf("a transfer is running for %s but its status is %s (active slot: %v)", p, st.Status, h.s.active[p] != nil)
		}
	}
	for p, n := range alivePeers {
		if n > 1 {
			return "two-transfers-for-one-receiver", fmt.Sprintf("%d transfers run for %s", n, p)
		}
		if h.s.active[p] == nil && settled {
			return "running-transfer-without-slot", fmt.Sprintf("a transfer is running for %s but it holds no slot (active: %d entries)", p, len(h.s.active))
		}
	}
	if len(h.waiting) > 0 && len(alive) < h.maxRecv && settled {
		return "free-slot-while-queue-nonempty", fmt.Sprintf("%d of %d slots busy while %v wait", len(alive), h.maxRecv, h.waiting)
	}
	if e.Kind == "leave" {
		for _, in := range live {
			if in.peer == e.Peer && in.ctx.Err() == nil {
				return "left-receiver-not-cancelled", fmt.Sprintf("%s left but its transfer #%d was not cancelled", e.Peer, in.id)
			}
		}
	}
	return "", ""
}

func (h *c12Harness) close() {
	// release everything and wait until every runTransfer goroutine of this sender has ended, so
	// that none of them reports into the hook callback of the next case
	deadline := time.Now().Add(2 * time.Second)
	for time.Now().Before(deadline) {
		h.mu.Lock()
		for _, in := range h.insts {
			if !in.released {
				in.released = true
				in.release <- errors.New("harness teardown")
			}
		}
		done := h.exits >= len(h.insts)
		h.mu.Unlock()
		h.s.mu.Lock()
		idle := len(h.s.active) == 0
		h.s.mu.Unlock()
		if done && idle {
			return
		}
		time.Sleep(50 * time.Microsecond)
	}
}

var c12Peers = []string{"a", "b", "c", "d", "e"}

func c12Run(maxRecv int, evs []c12Event) (sig, detail string, stats map[string]int) {
	stats = map[string]int{}
	h := newC12Harness(maxRecv)
	verifhook.Set(func(name, d string, n int64) {
		if name == "app.runtransfer.exit" {
			h.mu.Lock()
			h.exits++
			h.mu.Unlock()
		}
	})
	defer verifhook.Set(nil)
	defer h.close()
	var done []string
	for _, e := range evs {
		switch h.apply(e) {
		case "skip":
			continue
		case "envelope-loop-blocked":
			return "envelope-loop-blocked", fmt.Sprintf("70 signaling messages from receiver %s: the host's envelope handler did not come back within 8 s (it waits for a transfer to read them) | max-receivers=%d after events: %s %s", e.Peer, maxRecv, strings.Join(done, " "), e), stats
		}
		done = append(done, e.String())
		_, alive := h.live()
		if len(h.waiting) > 0 && len(alive) >= maxRecv {
			stats["queue-nonempty-while-slots-busy"]++
		}
		if e.Kind == "return" {
			stats["cancelled-instance-returns"]++
			// stale: a newer instance of the same peer exists
			stats["stale-return"] += 0
		}
		if s, d := h.check(e); s != "" {
			return s, fmt.Sprintf("%s | max-receivers=%d after events: %s", d, maxRecv, strings.Join(done, " ")), stats
		}
		if h.unsettled > 0 {
			stats["unsettled"] = h.unsettled
			return "", "", stats // the model may be out of step from here on: stop judging this sequence
		}
	}
	return "", "", stats
}

func genC12Events(t *rapid.T, n int, npeers int) []c12Event {
	var evs []c12Event
	for i := 0; i < n; i++ {
		k := rapid.SampledFrom([]string{"join", "accept", "accept", "accept", "leave", "success", "failure", "failure-reaccept", "return", "return", "cleanup", "signals"}).Draw(t, fmt.Sprintf("ev%d", i))
		e := c12Event{Kind: k, Peer: rapid.SampledFrom(c12Peers[:npeers]).Draw(t, fmt.Sprintf("peer%d", i)), Inst: rapid.IntRange(0, 3).Draw(t, fmt.Sprintf("inst%d", i))}
		if k == "cleanup" {
			e.Adv = rapid.SampledFrom([]time.Duration{time.Minute, 6 * time.Minute, 6 * time.Minute, 11 * time.Minute}).Draw(t, fmt.Sprintf("adv%d", i))
		}
		evs = append(evs, e)
	}
	return evs
}

func TestVerifC12Random(t *testing.T) {
	rec := verifkit.NewRecorder("C12", "sequences")
	defer rec.Flush()
	rapid.Check(t, func(rt *rapid.T) {
		maxRecv := rapid.IntRange(1, 3).Draw(rt, "max_receivers")
		npeers := rapid.IntRange(3, 5).Draw(rt, "receivers")
		evs := genC12Events(rt, rapid.IntRange(1, 30).Draw(rt, "events"), npeers)
		sig, detail, stats := c12Run(maxRecv, evs)
		rec.Eval()
		if sig != "" {
			rec.Fail(rt, sig, detail)
			return
		}
		if stats["queue-nonempty-while-slots-busy"] > 0 {
			var parts []string
			for _, e := range evs {
				parts = append(parts, e.String())
			}
			rec.NonTrivial(fmt.Sprint(maxRecv) + strings.Join(parts, " "))
			rec.Class("queue-nonempty-while-slots-busy")
		}
		if stats["cancelled-instance-returns"] > 0 {
			rec.Class("cancelled-instance-returns")
		}
		if stats["unsettled"] > 0 {
			rec.Class("sequence-abandoned-not-quiescent")
		}
		if rec.SampleWanted() && len(evs) > 8 {
			var parts []string
			for _, e := range evs {
				parts = append(parts, e.String())
			}
			rec.Sample(fmt.Sprintf("max-receivers=%d: %s", maxRecv, strings.Join(parts, " ")))
		}
	})
}

// TestVerifC12Exhaustive enumerates every event sequence up to a length bound over 3 receivers.
func TestVerifC12Exhaustive(t *testing.T) {
	rec := verifkit.NewRecorder("C12", "exhaustive")
	defer rec.Flush()
	sh, nsh := verifkit.Shard()
	peers := []string{"a", "b", "c"}
	var alphabet []c12Event
	for _, p := range peers {
		alphabet = append(alphabet, c12Event{Kind: "accept", Peer: p}, c12Event{Kind: "leave", Peer: p})
	}
	alphabet = append(alphabet, c12Event{Kind: "join", Peer: "a"}, c12Event{Kind: "success", Inst: 0}, c12Event{Kind: "failure", Inst: 0},
		c12Event{Kind: "return", Inst: 0}, c12Event{Kind: "success", Inst: 1}, c12Event{Kind: "failure", Inst: 2}, c12Event{Kind: "cleanup", Adv: 11 * time.Minute})
	maxLen := 3
	if verifkit.Thorough() {
		maxLen = 5
	}
	count := 0
	var walk func(prefix []c12Event, maxRecv int) bool
	walk = func(prefix []c12Event, maxRecv int) bool {
		if len(prefix) == maxLen {
			count++
			if count%nsh != sh {
				return true
			}
			sig, detail, stats := c12Run(maxRecv, prefix)
			rec.Eval()
			if sig != "" {
				rec.Fail(t, sig, detail)
				return true
			}
			if stats["queue-nonempty-while-slots-busy"] > 0 {
				var parts []string
				for _, e := range prefix {
					parts = append(parts, e.String())
				}
				rec.NonTrivial(fmt.Sprint(maxRecv) + strings.Join(parts, " "))
			}
			return true
		}
		for _, e := range alphabet {
			if !walk(append(append([]c12Event(nil), prefix...), e), maxRecv) {
				return false
			}
		}
		return true
	}
	for _, mr := range []int{1, 2} {
		walk(nil, mr)
	}
	rec.Extra("sequences_enumerated", count)
	rec.Extra("bound", fmt.Sprintf("all sequences of exactly %d events over an alphabet of %d events (3 receivers), max-receivers 1 and 2; prefixes are checked after every event", maxLen, len(alphabet)))
	rec.SetExhaustive(true)
}
